#!/bin/bash
# usage: tools/fuzz_stage.sh <Cxx> <runs-per-target> <seed>
# coverage-guided stage of a thorough check: libFuzzer on the targets that serve the property, each from a fresh
# corpus directory seeded with /verif/corpus/<target>. Prints VIOLATION lines for crashes that replay through
# pkverif, writes /verif/fuzz/last-<Cxx>.json (merged into the evidence by ./check). Exit 0 ok / 1 violation /
# 3 stage skipped (fuzz build unavailable).
ID="$1"; RUNS="${2:-200000}"; SEED="${3:-0}"
HERE="$(cd "$(dirname "${BASH_SOURCE[0]}")/.." && pwd)"
cd $HERE/fuzz || exit 3
case "$ID" in
  C10) T="psl";; C12) T="authdata";; C13) T="ctap_cbor";; C14) T="webauthn_json";;
  C15) T="authdata ctap_cbor webauthn_json hid u2f psl";; C16) T="hid";; C17) T="u2f";; *) exit 0;;
esac
[ "$SEED" = "0" ] && SEED=1
if [ -n "${VERIF_REPO:-}" ] && [ "$VERIF_REPO" != "/repo" ]; then
  # another checkout of the repository: substitute the path dependencies (see ./check)
  R="$VERIF_REPO"
  printf '[net]\noffline = true\n\npaths = ["%s/passkey-types", "%s/passkey-authenticator", "%s/passkey-client", "%s/passkey-transports", "%s/public-suffix"]\n' "$R" "$R" "$R" "$R" "$R" > $HERE/fuzz/.cargo/config.toml
fi
if ! CARGO_NET_OFFLINE=true cargo +nightly fuzz build --fuzz-dir . >/tmp/pkverif-fuzz-build.$$ 2>&1; then
  echo "FUZZ-STAGE-SKIPPED: cargo +nightly fuzz build failed" >&2; tail -5 /tmp/pkverif-fuzz-build.$$ >&2; rm -f /tmp/pkverif-fuzz-build.$$
  echo "{\"skipped\": \"fuzz build failed\"}" > $HERE/fuzz/last-$ID.json
  exit 3
fi
rm -f /tmp/pkverif-fuzz-build.$$
rc=0
echo "{" > $HERE/fuzz/last-$ID.json
first=1
for t in $T; do
  C=$HERE/fuzz/corpus-run/$ID-$t; A=$HERE/fuzz/artifacts/$t
  rm -rf "$C"; mkdir -p "$C" "$A"; cp $HERE/corpus/$t/* "$C"/ 2>/dev/null
  LOG=$HERE/fuzz/corpus-run/$ID-$t.log
  CARGO_NET_OFFLINE=true timeout 3600 cargo +nightly fuzz run --fuzz-dir . $t "$C" -- -runs=$RUNS -seed=$SEED -len_control=0 -max_len=4096 -timeout=20 -rss_limit_mb=3072 -artifact_prefix="$A/" -print_final_stats=1 > "$LOG" 2>&1
  frc=$?
  execs=$(grep -oE "stat::number_of_executed_units: [0-9]+" "$LOG" | grep -oE "[0-9]+$" | tail -1)
  cov=$(grep -oE "cov: [0-9]+" "$LOG" | tail -1 | grep -oE "[0-9]+")
  crashes=0
  if [ $frc -ne 0 ]; then
    art=$(grep -oE "Test unit written to [^ ]+" "$LOG" | tail -1 | awk '{print $5}')
    if [ -n "$art" ] && [ -f "$art" ]; then
      if ! $HERE/harness/target/release/pkverif $ID thorough --replay "$art" >/dev/null 2>&1; then
        crashes=1; rc=1
        echo "VIOLATION property=$ID replay=$art"
        echo "  stage=fuzz:$t $(grep -m1 -E "panicked at|ERROR: libFuzzer|ERROR: AddressSanitizer" "$LOG" | cut -c1-200)"
      else
        echo "FUZZ-NOTE: $t stopped with an artifact that does not reproduce through pkverif ($art); not reported" >&2
      fi
    fi
  fi
  [ $first -eq 1 ] || echo "," >> $HERE/fuzz/last-$ID.json; first=0
  echo "\"$t\": {\"runs_requested\": $RUNS, \"executed\": ${execs:-0}, \"coverage_edges\": ${cov:-0}, \"crashes\": $crashes, \"seed\": $SEED, \"corpus_seeds\": $(ls $HERE/corpus/$t 2>/dev/null | wc -l)}" >> $HERE/fuzz/last-$ID.json
  rm -rf "$C"
done
echo "}" >> $HERE/fuzz/last-$ID.json
exit $rc
