#!/bin/bash
# usage: tools/mutpar.sh <listfile> [jobs]
# listfile lines: <name> <patch.diff> <Cxx>. Runs the quick tier of check Cxx against a scratch copy of /repo with the
# patch applied, several at a time (own copy, own target directory, own VERIF_ROOT without the regression replays, so the
# verdict comes from the generators alone). /repo itself is not touched. Prints one line per entry.
# KEEP_REPLAYS=<dir> keeps the shrunk failing cases there (to be copied into replays/regress/).
set -u
LIST="$1"; JOBS="${2:-6}"
W=/tmp/mutpar; mkdir -p $W
if [ ! -x $W/_seed/target/release/pkverif ]; then
  rm -rf $W/_seed; mkdir -p $W/_seed
  rsync -a --exclude target --exclude .git /repo/ $W/_seed/repo/
  VERIF_ROOT=$W/_seed/root VERIF_REPO=$W/_seed/repo CARGO_TARGET_DIR=$W/_seed/target /verif/check C11 quick >/dev/null 2>&1
  rm -rf $W/_seed/target/release/incremental
fi
export W KEEP_REPLAYS
run_one() {
  name="$1"; patch="$2"; id="$3"
  S=$W/$name; rm -rf $S; mkdir -p $S/root/replays
  rsync -a --exclude target --exclude .git /repo/ $S/repo/
  if ! (cd $S/repo && git apply "$patch" 2>/dev/null); then echo "$name $id PATCH-DOES-NOT-APPLY"; rm -rf $S; return; fi
  cp /verif/KNOWN_FINDINGS.txt $S/root/
  cp -a $W/_seed/target $S/target
  out=$(VERIF_ROOT=$S/root VERIF_REPO=$S/repo CARGO_TARGET_DIR=$S/target timeout 1200 /verif/check $id quick 2>&1); rc=$?
  echo "$name $id exit=$rc $(echo "$out" | grep -E "^(VIOLATION|BUILD|INCONCL)" | head -1 | cut -c1-80) | $(echo "$out" | grep -E "^  stage" | head -1 | cut -c1-220)"
  if [ -n "${KEEP_REPLAYS:-}" ]; then
    # keep the shrunk failing cases as regression replays: <dir>/<Cxx>-<name>-<stage>.json
    for f in $S/root/replays/$id-*-seed*.json; do
      [ -f "$f" ] || continue
      stage=$(python3 -c "import json,sys;print(json.load(open('$f'))['stage'])")
      case "$stage" in regress-*) continue;; esac
      var=$(python3 -c "import json,sys;print(json.load(open('$f')).get('variant',''))")
      mkdir -p "$KEEP_REPLAYS"; cp "$f" "$KEEP_REPLAYS/$id-$name-${var:+$var@}$stage.json"
    done
  fi
  rm -rf $S
}
export -f run_one
grep -v '^#' "$LIST" | xargs -P "$JOBS" -L 1 bash -c 'run_one "$0" "$1" "$2"'
