#!/usr/bin/env python3
"""Regenerates /verif/MANIFEST.json from the table below (keeps it valid at all times)."""
import json, os, sys
HERE = os.path.dirname(os.path.dirname(os.path.abspath(__file__)))

# id -> (engine, category, technique, level text, level note, design ref)
CHECKS = {
 "C06": ("ceremony", "exploration",
   "proptest-generated ceremonies at WebAuthn / CTAP2 / U2F level; secret scanner over every rendering of every returned value against the secrets read back from the store (invariant oracle)",
   "After each generated ceremony the harness reads the private scalar and both PRF secrets back from the store and searches them (and each 16-byte half) in JSON, CBOR, raw byte fields, U2F encodings and {:?}/{:#?} renderings of results, errors, get_info and stored passkeys: raw, and inside every decimal list, hex run and base64/base64url run decoded at every alignment; the attested COSE key must carry public parameters only. The scanner is self-tested on a planted secret in each representation before every run.",
   "representations covered are exactly those of the statement (raw, hex, decimal list, base64, base64url); PRF outputs are not secrets",
   "DESIGN.md §4 C06"),
 "C15": ("hostile", "exploration",
   "generated hostile inputs (arbitrary bytes and structured mutations of valid encodings from the C12/C13/C14/C16/C17 generators) for 24 decoder entry points, each case in an isolated worker process with panic, abort/stack-overflow, allocation and CPU-time oracles; ddmin minimisation of failures",
   "Each case runs in a child process on an 8 MiB-stack thread under catch_unwind with a counting global allocator (requests above 64 MiB are served by mmap(MAP_NORESERVE) so a huge reservation is measured instead of aborting) and per-thread CPU accounting plus a 10 s CPU watchdog; the parent attributes a process death to the case that was started and restarts after it. A returned value or error is fine; a panic, abort, stack overflow, more than 8 MiB + 256 B/byte of memory or more than 250 ms + 20 us/byte of CPU (minimum of three runs) is a violation, minimised with ddmin in further child processes; a failing case is first re-run in a process of its own and only counts when it reproduces (a wall-clock stall is exit 2). Inputs also include CTAPHID trains of up to 700 continuation packets and COSE keys with coordinates of any sizes. Mutations include chains of 2-64 nested arrays/maps with huge declared lengths in front of any item. Sixteen growth families (HID packet streams, CBOR/JSON lists, unknown members, labels ...) are measured at n and 4n: CPU time at 4n must stay within 8x the time at n. Regression inputs for the repaired defects D7-D11, D8b and D14 run first in every campaign.",
   "'out of proportion' is a numeric threshold chosen by the harness; a wall-clock stall without CPU use is inconclusive, not a violation",
   "DESIGN.md §4 C15"),
 "C18": ("hostile", "exploration",
   "differential testing: generated requests and authenticator states driven through <Authenticator as Ctap2Api> and through the direct methods on two authenticators built from the same description, in isolated worker processes (termination oracle)",
   "For generated getInfo / makeCredential / getAssertion requests (valid and failing in every documented way), store contents, capabilities, hmac-secret configurations and user-validation behaviours, the trait call must terminate (a stack overflow or abort kills the worker and is attributed to the case) and agree with the direct call: same status byte on errors; same authenticator data, selected credential, user entity, extension outputs and a verifying signature on successes (registrations by shape, as keys and ids are random); same abstract store state, same user-validation call log and same sequence of store calls. RP IDs are also arbitrary text (0-70 characters, 1-4 byte characters) and store calls may fail with any status byte, both sides armed alike; makeCredential carries explicit hmac-secret inputs and user handles of 1-255 bytes, getAssertion per-credential PRF inputs and reversed allow lists, the contents of every store call are compared, and the authenticators are configured with default / empty / other transport lists.",
   "two separately built but identically described authenticators stand for 'an authenticator in the same state'",
   "DESIGN.md §4 C18"),
 "C13": ("codec", "exploration",
   "proptest-generated CTAP2 message values against key tables transcribed from the specification (reference table), CBOR round-trip, injected unknown/duplicate/missing keys, and exhaustive enumeration of all 256 status bytes",
   "For the six message types, generated values with every optional member present/absent are serialised and re-read as generic CBOR: the top-level keys must be exactly the integers the specification assigns to the present members, ascending, each carrying the encoding of the member assigned to it; deserialising yields an equal message (order-normalised CBOR equality); unknown integer keys 0..255 and unknown text keys are ignored; every duplicated member and every removed required member is an error; a key occurring twice with null in first, second or both places is an error too; absent options and all 8 partial option maps give up=true, rk=uv=false; byte strings are occasionally 4095-6000 bytes long. All 256 status bytes are enumerated: conversion both ways, injectivity, the client mapping and an end-to-end Client::authenticate with a store double failing with that byte.",
   "nested member encodings are taken from serde on the member alone (the statement constrains top-level keys); trusts ciborium::Value as the generic reader",
   "DESIGN.md §4 C13"),
 "C14": ("codec", "exploration",
   "proptest-generated option trees rendered under many JSON presentations and compared with the canonical presentation (differential/metamorphic oracle); byte-string and emitted-credential round-trips; order-preserving key scan of client data",
   "Each generated creation/request options value is rendered canonically and under four generated presentations (binary members as number array / base64url / base64, padded or not; numbers as number, string, integral float, exponent, stringified float; unknown members at every object level; unknown enumeration strings; allowList alias) and both must parse to the same value through serde_json::from_str, from_reader and from_value alike; base64url encode/decode and Bytes<->String are checked as identities on generated byte strings together with every textual presentation; collected client data with generated nested extras and unknown members must serialise type, challenge, origin, crossOrigin first and keep the original order (also after parse/re-serialise and in clientDataJSON produced by real ceremonies); credentials emitted by real registrations/assertions (challenges and extra client data up to several KiB) must re-parse from their JSON to an equal value. The whole check runs a second time against the library built with its serialize_bytes_as_base64_string feature (separate harness build, results merged into the evidence).",
   "values compared through Debug rendering (no PartialEq on the types); serde_json with preserve_order is the order-preserving scanner",
   "DESIGN.md §4 C14"),
 "C12": ("codec", "exploration",
   "proptest-generated authenticator data values: independent fixed-offset decoder (layout oracle), round-trip, and enumeration of every strict prefix / single-byte corruption of a subset",
   "Values built with the public constructor and setters over RP IDs, counters, flag sets, AAGUIDs, credential-id lengths at every u8/u16 boundary up to 65535 (and beyond for the constructor guard), EC2 keys (parameters in any order, optionally with key id / key operations; RP IDs whose hash mimics a CBOR head) and both extension output types, optionally followed by a second extension-setter call, are encoded and decoded by the harness's own layout decoder (rpIdHash recomputed from the RP ID, big-endian counter, AT/ED iff section present, aaguid/length/id/COSE key/extension map bytes) and by the library (round-trip equality, absent counter reads back as 0); every strict prefix, reserved flag bits and flagged-but-missing sections must be rejected; corrupted encodings must not panic and must decode to a fixpoint.",
   "AT/ED are controlled by the section setters only (set_flags gets UP/UV/BE/BS); trailing bytes are not constrained by the statement",
   "DESIGN.md §4 C12"),
 "C16": ("hid", "exploration",
   "complete payload-length sweep 0..=7700 plus proptest messages through an independent packet parser and a fresh receiver (round-trip oracle); complete enumeration of all order-preserving merges of short multi-channel streams plus generated merges",
   "Every payload length 0..=7700 (and 65535/65536/70000) is sent; the bytes written are parsed by the harness's own CTAPHID packet parser (64-byte packets, header layout, sequence numbers from 0 with bit 7 clear, zero padding, concatenation equals payload, nothing accepted above 7609) and fed to a fresh ChannelHandler (nothing before the last packet, exactly one equal message on it, orphan continuation yields nothing). For 2-4 channels all order-preserving merges of streams with up to 9 packets in total are enumerated for nine command rotations (so INIT, CANCEL ... appear on every channel position) and longer streams get generated merges: uniformly mixed ones, and skewed ones in which one channel pauses inside its message while other channels send whole messages of up to 129 packets and a further channel starts only afterwards; a third of the generated merges run on a receiver that still holds given-up transmissions on the same channels; sequences of transmissions through one receiver (with immediate repeats) must each be delivered once; delivered messages are sent on again; stray continuation packets of idle channels yield nothing.",
   "channel id byte order accepted as either endianness but fixed within a message; refusals at or below 7609 are measured (the sender refuses exactly 7609)",
   "DESIGN.md §4 C16"),
 "C17": ("u2f", "exploration",
   "proptest-generated U2F register/authenticate histories verified with p256 under the model's registered key, harness-side re-encoding of responses (reference encoder) and APDU round-trip of generated request frames",
   "Histories over three store kinds with key handles of every length 0..=255 (each length also once deterministically; handles are registered again in 30% of the registrations), counters, all presence flag bytes and control bytes, and on the reference store registrations during which a store call fails (such a registration must not report success unless the credential is there): the registration signature must verify over 0x00||app||challenge||handle||0x04||x||y, the store must hold a credential for (application, handle) whose private key matches, authentication must verify over app||presence||counter_be||challenge under that key, an unknown handle must fail, and encode() of every response must equal the harness's own field concatenation ending in 9000; generated well-formed extended-length frames must parse back to the same request.",
   "registration signature accepted as DER or r||s; version frames asserted with Le absent/0 only; wrong-application with a registered handle is measured (MemoryStore ignores the RP, D5)",
   "DESIGN.md §4 C17"),
 "C19": ("sched", "exploration",
   "harness-owned scheduler over hand-polled ceremonies: complete DFS over all schedules of small configurations plus proptest-generated schedules; invariant oracle over results, final store and the store event log",
   "Two or three real authenticators share one Arc<Mutex<_>> / Arc<RwLock<_>> store (inner store suspends inside calls so guards are held across suspensions, user validation suspends too). Every decision 'poll the k-th runnable ceremony' is a choice point; all schedules of ~400 fixed configurations (all pair types x suspension counts, some triples) are enumerated by prefix replay, larger configurations get generated shrinkable schedules. Judged: no deadlock (nobody runnable while ceremonies unfinished), every successful registration's credential present at the end, same-credential assertions pairwise distinct with the largest equal to the stored value, no unexpected failures. Ceremony sets also contain an assertion that the authenticator refuses after the user prompt (PRF on a credential without secrets) next to successful ones: then the stored counter must lie between the largest reported one and start + number of assertions, and in every schedule above the start value once an assertion was answered. Ceremony kinds include silent assertions; start counters reach 2^32-4. The store double can refuse the n-th counter update (the issuing assertion must fail) and its update only rewrites records it finds.",
   "known finding D13 (overlapping lookup..update windows of two assertions on one credential) is recognised from the tagged store event log and counted; the same symptom without overlap, any deadlock and any lost credential are violations. Determinism relies on the harness owning all suspension points",
   "DESIGN.md §4 C19"),
 "C07": ("faults", "fault_enumeration",
   "fault enumeration over generated scenarios: every store call failing with each status of a set, cancellation after every number of polls, plus proptest combinations; snapshot/log invariant oracle",
   "For each generated scenario (create / assert / U2F register with extensions, counters, lists, error-inducing options, suspending doubles) the harness first records the fault-free run, then enumerates completely (a) every fallible store call of that run failing with each of seven status bytes and (b) dropping the operation after every possible number of polls, and adds generated combinations of 2-3 faults with cancellation. Store snapshots and the store's call log decide: failed registration => store identical; cancelled registration => identical or plus exactly one complete record; success => the store accepted the save/the exact counter value first; failed/cancelled assertion => only the selected counter may have advanced by one; an injected save/update error never yields success. Histories on the shipped MemoryStore and Option slot add ceremonies that fail by themselves (refused user, excluded credential, unsupported algorithm, PRF the credential cannot serve, U2F key handles registered again or longer than 255 bytes, status byte 0 also as the CTAP1 success value, the selected credential removed by another party during the prompt), judged by snapshots before/after every operation.",
   "suspension points are those reachable through the public traits (user validation, store calls), which are all the await points of these ceremonies; get_info cannot fail by its signature",
   "DESIGN.md §4 C07"),
 "C09": ("ceremony", "exploration",
   "proptest-generated PRF ceremonies (client and CTAP2 level) against HMAC-SHA-256 built in the harness and a reference validator for malformed requests (reference-model oracle)",
   "Generated registrations and assertions over five authenticator configurations, verified/unverified users, stores with credentials holding no/gated/both secrets, inputs of any length and every evalByCredential key shape: each PRF result present must equal HMAC(k, salt) computed by the harness for a secret of exactly the credential created/used, with the gated secret only when the UV bit of that ceremony is set and always when verified during an assertion; per-credential inputs override defaults; enabled must equal 'secrets stored'; no capability means no output and no secret; every malformed class must be rejected with the stated error before any check_user/find/save call; a successful assertion without a result although inputs apply and the credential holds the needed secret is a violation.",
   "HMAC and salts are the harness's own code on top of sha2; a missing second output is measured only",
   "DESIGN.md §4 C09"),
 "C04": ("consent", "exploration",
   "complete enumeration of the finite configuration product on fresh authenticators with scripted user-validation doubles; statement-derived oracle plus a metamorphic pair over store content",
   "All ~9k combinations of operation, requested rk/up/uv (handed over as a value, or through the request's CBOR encoding with default-valued options and the emptied options map left out), verification and presence capability, user-validation outcome (4 results + 3 error codes), pin-auth, store content and exclude list are executed at the authenticator API and (reduced) through Client; success requires the reported presence/verification, UP/UV bits must equal what the double reported, every missing-consent class must fail with the store snapshot unchanged and with the same outcome whether or not a matching credential exists, and the credential shown to check_user (every time it is consulted) must be the one that signs (two matching credentials are stored; in 1 344 further configurations another party inserts a further credential in front while the user is asked; verification requests without the capability also on an authenticator that served a verified ceremony before; a store whose items convert into passkeys fallibly; the product also through the sealed trait; client assertions with ten-entry allow lists). The space is finite and is enumerated completely.",
   "doubles implement the public UserValidationMethod / CredentialStore traits; the counter setting is on so that a premature update would show in the snapshot",
   "DESIGN.md §4 C04"),
 "C05": ("stores", "exploration",
   "proptest-generated store contents and allow/exclude lists against the authenticator (model oracle) and differential contract conformance of every shipped store and lock wrapper against the reference lookup semantics",
   "(A) generated contents over three RPs with identical user handles and every list shape (absent, empty, hits, misses, near misses, foreign-RP ids, unknown descriptor types; the reference store answers a miss with NoCredentials or Ok(empty), may fail an assertion's first lookup, and may gain or lose the named credentials during the prompt of a registration) drive get_assertion / make_credential on the reference store, MemoryStore, the Option slot and a lock wrapper: the credential used must belong to the RP and to a non-empty allow list and be, for an absent or empty list, the first the reference store lists; credential-excluded must occur exactly when a non-empty exclude list names a credential of the same RP, creating nothing; the store must be queried with the request's RP ID. (B) all nine shipped store/wrapper types are compared with the contract { c | c.rp_id == rp and (ids None or c.id in ids) } on generated save/update/query sequences. (C) the six lock wrappers are called while another task holds the mutex / write lock / read lock: a lookup (and through the Arc wrappers an update or a save) may wait but must then answer per the contract.",
   "known finding D5 (MemoryStore family ignores rp_id when ids are given) is recognised by signature and counted so the search continues; every other disagreement is a violation",
   "DESIGN.md §4 C05"),
 "C11": ("ceremony", "exploration",
   "complete enumeration of capability x residentKey x requireResidentKey x credProps (x CTAP rk) through the real client/authenticator against the table in the statement",
   "All ~400 configurations (incl. PRF requested alongside, the store capability changing while the user is being asked, the store inside each lock wrapper also under lock contention, authenticators without configured user verification, a final assertion with a two-id allow list) are run through Client::register + three authentications under userVerification preferred / discouraged / required (and make_credential/get_assertion for the CTAP-level rk): the rk option that reaches the store must follow the WebAuthn mapping, the stored user handle must exist exactly when the credential is discoverable under the store capability, a required resident key on a non-discoverable-only store must be refused with nothing stored, credProps.rk when requested must equal the stored discoverability and the assertion must return a user handle exactly when one is stored. The space is finite and enumerated completely.",
   "capability is injected through the reference store's get_info",
   "DESIGN.md §4 C11"),
 "C02": ("ceremony", "exploration",
   "proptest-generated registration histories through the real Client, judged by an independent relying-party verifier and a store-delta model (model-based oracle)",
   "Generated histories of registrations (all client-data modes, algorithm lists, challenge/user shapes, id lengths, counter settings, three store kinds, nine accepted origin/RP-ID sites) are executed on the real client+authenticator; each success is verified the way a relying party would (client data, attestation object, authenticator data layout decoded independently, COSE/DER key agreement, P-256 point validity) and against the store delta (exactly one new record whose private scalar matches the returned public key, effective RP ID, fresh id of the configured length); unsupported-only algorithm lists must fail and leave the store unchanged. Registrations also request extensions (credProps, PRF) and carry exclude lists that exclude nothing; the check runs a second time against the library built with its serialize_bytes_as_base64_string feature.",
   "trusts p256, ciborium::Value and serde_json::Value as generic parsers inside the oracle; user validation always consents (C04 covers consent)",
   "DESIGN.md §4 C02"),
 "C03": ("ceremony", "exploration",
   "proptest-generated interleaved register/authenticate histories with a model of registered credentials; signatures verified with p256 under the model's key (model-based oracle)",
   "Interleaved histories over several RP IDs, users, allow-list shapes and client-data modes run on the real client (registrations with extensions and non-excluding exclude lists); every assertion must verify under the public key the model recorded at registration for the returned id over authData || clientDataHash (or the caller's hash), carry the right client data, rpIdHash, no AT, id/rawId agreement, eligibility (RP and allow list) and the stored user handle; with no eligible credential the result must be CredentialNotFound. Sites include names below 'localhost'; some assertions are made directly at the CTAP2 level (also for mixed-case RP IDs only such a caller can name) and judged the same way.",
   "multi-RP histories run on the reference store (contract semantics) because MemoryStore's id lookup ignores the RP (known finding D5 under C05); single-RP histories also run on the shipped stores",
   "DESIGN.md §4 C03"),
 "C08": ("ceremony", "exploration",
   "proptest-generated assertion histories against a per-credential counter model (invariant over the history)",
   "Histories of up to 40 assertions (and some registrations, on a reference store of every capability and on the shipped stores) interleaved over up to 4 credentials with boundary start counters (0, 2^31, 2^32-1, ...) (the harness logs at trace level, so log arguments are evaluated; a stage removes the selected credential from a shared map during the prompt) check after every step that the reported counter is previous+1, equals the stored value, that nothing else in the record changed, that counter-less credentials report 0 and are never rewritten, and that at u32::MAX nothing wraps or panics (overflow checks are on in the harness build).",
   "the harness builds the library with overflow-checks and debug-assertions on, so wrap-around shows as a panic as well as a model mismatch",
   "DESIGN.md §4 C08"),
 "C01": ("rpid", "exploration",
   "proptest-constructed (origin, RP ID) pairs + complete sweep of all list rules against a reference predicate written from the statement (implication oracle), plus spy-instrumented end-to-end ceremonies",
   "Every (origin, RP ID, configuration) pair is decided by the real RpIdVerifier and by a reference predicate (label-aligned suffix, https, registrable under the harness's own PSL implementation or the plugged provider, localhost exception); acceptance must imply the predicate and yield exactly the effective RP ID. All ~9.8k list rules are swept as RP IDs (A-label and Unicode/Android forms), every character cut of a set of hosts is enumerated, and generated pairs are also pushed through Client::register/authenticate with spy store and spy user validation (rejected => authenticator untouched, accepted => store and rpIdHash see the effective RP ID; the insecure-localhost switch is also toggled on and off again).",
   "only 'accepted => conditions' is asserted (over-rejections are measured); trusts the url and idna crates for parsing/normalisation and the harness PSL reference (itself cross-checked by C10)",
   "DESIGN.md §4 C01"),
 "C10": ("psl", "exploration",
   "complete rule sweep + proptest generated names against a reference PSL implementation (differential oracle)",
   "Every rule of the shipped .dat is swept (itself, extended by 1-3 labels, leading label removed/replaced, each of the list's frequent labels placed directly below it) and, in the other direction, every node path of the compiled table is used as a name and hundreds of thousands of generated names are compared with an independent implementation of the publicsuffix.org algorithm that reads the .dat at run time; arbitrary strings get structural checks (label-aligned suffix, one more label, empty labels rejected, no panic). Exhaustive over rules, sampled over names: right level for a table-driven lookup whose failure modes are per-rule.",
   "trusts the idna crate for rule conversion and the harness's ~100-line reference algorithm; agreement asserted on every name without empty labels (literal label matching), address-like names included",
   "DESIGN.md §4 C10"),
}


# additions of round 7 (appended to the level text of the check)
R7 = {
 "C10": "Every lookup is also made from a generic caller and through a trait object; the call paths must agree.",
 "C04": "480 further configurations on hmac-secret authenticators with a PRF input in the request (extension processing follows consent and must not touch the flags).",
 "C01": "Supplied RP IDs are also label-aligned windows of the host that are not tails, hosts cut short, and hosts that contain a registrable name before further labels. Custom providers fail with every error value of the provider interface.",
 "C02": "The reference store is also handed over inside each of the four lock wrappers; Android callers with fingerprints whose base64 and base64url forms differ; the consuming transports builder is called last in part of the configurations. One registration in eight on the (wrapped) reference store meets a store that refuses the save and may not report success.",
 "C03": "A second stage replaces held records from outside between assertions (same id, another key pair: the signature must verify under the key now registered) and asks from another RP's site for a held credential (a store outside the lookup contract hands it out; rpIdHash, client data, signature and user handle are judged, eligibility is C05's). Records with private scalars shorter than 32 bytes and an assertion on a record with an unusable key before the judged one; in client authentications the user gives what each request asks for.",
 "C05": "Lists of 16-45 entries and registrations with other algorithm lists (nothing supported, empty, supported entry last) are generated as well. Users who are present but not verified, and per-credential PRF inputs keyed by every held credential of the RP.",
 "C06": "The store capability varies (full / forced / non-discoverable only) and non-resident credentials are registered at the CTAP2 level. hmac-secret-mc inputs at the CTAP2 level, and odd-sized PRF secrets evaluated under catch_unwind with the panic message scanned.",
 "C07": "A reference store whose lookups lag behind its writes (Ok(empty) for what was just saved), and another party using the selected credential 1-4 times during the prompt, are part of the scenarios. Client registrations vary attestation preference and timeout.",
 "C08": "A failed authentication must not move a stored counter backwards (pre-loaded credentials without hmac-secret material at the maximum); the consuming transports builder may follow the counter setter. PRF requests are independent of the UV requirement and the user gives what each request asks for (a client that turns to the authenticator twice shows as a jump of two).",
 "C09": "A registration that succeeds without a PRF result on an authenticator that evaluates at creation, given default inputs, is a violation (a result or an error is due). credProps alongside PRF; a validation method that reports verification without advertising it ('verified' is what the validation step reported).",
 "C11": "652 configurations: user ids of 1..64 bytes and creation options through JSON with an unknown residentKey string. 724 configurations: relying parties named in the library's sources, credProps also read from the serialised credential.",
 "C13": "A third of the partial option maps also carry an unknown text key.",
 "C14": "String::from(Bytes) must be inverted by the strict base64url decoder.",
 "C15": "Names with characters whose case mappings change the encoded length and asset links without a host against address-host statement URLs are generated and fixed. Growth families with line breaks / padding characters / blanks after a short base64 value.",
 "C16": "Payloads that carry another channel's id (every command x offset x byte order while that channel has a message in progress) and merges that start while 1..1000 other channels hold unfinished transmissions. A transport that fails one write call (success reported => complete stream handed over), and one transmission with a real pause of 3.6 s (12 s thorough) between packets.",
 "C17": "Constant-byte application parameters: each of the 256 values once, and in a fifth of the histories. Unknown handles that are rearrangements of a registered one; a reference store that does not persist counters.",
 "C18": "A third of the cases run on authenticators that answered 1-4 earlier uv requests (declined / timed out / consented), one side through the direct methods, the other through the trait; the earlier results are compared too. A sixth of the cases start after a cancelled request on each side; held user handles of up to 1.3 kB. The first 1024 cases of every run enumerate every status byte as the user-validation error and as the status of a failing first store call.",
 "C19": "In every schedule the counters handed to the shared store equal the counters that reach the store behind the wrapper, and an answered assertion reports the value it asked the store to hold. Declined assertions (must not write to the shared store) and allow lists naming both held credentials.",
}

NOT_BUILT_REASON = "engine designed in DESIGN.md §4 but not built yet in this snapshot (work in progress; not a claim that the technique cannot apply)"

def main():
    props = [json.loads(l) for l in open(os.path.join(HERE, "properties.jsonl"))]
    checks = []
    na = []
    for p in props:
        i = p["id"]
        if i in CHECKS:
            eng, cat, tech, text, note, ref = CHECKS[i]
            checks.append({
                "property_id": i,
                "quick_cmd": f"./check {i} quick",
                "thorough_cmd": f"./check {i} thorough",
                "evidence_file": f"/verif/evidence/{i}.json",
                "replay_cmd_template": f"./check {i} quick --replay {{path}}",
                "engine": eng,
                "level_claimed": {"category": cat, "text": (text + " " + R7[i]) if i in R7 else text, "design_ref": ref},
                "level_note": note,
                "technique": tech,
            })
        else:
            na.append({"property_id": i, "reason": NOT_BUILT_REASON})
    engines = {}
    for i,(eng,*_) in CHECKS.items():
        engines.setdefault(eng, []).append(i)
    m = {
        "version": 1,
        "setup_cmd": "cd /verif/harness && CARGO_NET_OFFLINE=true cargo build --release --offline && CARGO_NET_OFFLINE=true CARGO_TARGET_DIR=/verif/harness/target-b64 cargo build --release --offline --features bytes-as-base64",
        "hooks": {
            "guard": "--cfg passkey_rs_verif",
            "enable": "no hooks are needed: every observation point is reached through the public API plus harness-side doubles of the public CredentialStore / UserValidationMethod traits; checks build /repo's working tree as path dependencies of /verif/harness",
            "baseline_off_cmd": "cd /repo && cargo test --workspace --no-fail-fast --offline",
            "source_commits": [],
            "add_only": True,
        },
        "engines": [{"name": e, "path": "/verif/harness/src/props", "serves_properties": sorted(v), "kind_free_text": "proptest-driven generated search with explicit oracle inside the pkverif binary"} for e, v in sorted(engines.items())],
        "checks": checks,
        "notes": "All checks: exit 0 held / 1 VIOLATION / 2 inconclusive (build failure, harness crash, budget). Known findings are in /verif/KNOWN_FINDINGS.txt. VERIF_SEED selects the proptest seed.",
        "not_applicable": na,
    }
    json.dump(m, open(os.path.join(HERE, "MANIFEST.json"), "w"), indent=1)
    print(f"MANIFEST.json: {len(checks)} checks, {len(na)} not claimed")
if __name__ == "__main__":
    main()
