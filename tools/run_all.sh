#!/bin/bash
# usage: tools/run_all.sh [quick|thorough] [seed ...]   -- runs every claimed check, prints one line per (check, seed)
TIER="${1:-quick}"; shift || true
SEEDS="${*:-0}"
cd /verif
IDS=$(python3 -c "import json;print(' '.join(c['property_id'] for c in json.load(open('MANIFEST.json'))['checks']))")
( cd harness && cargo build --release --offline >/dev/null 2>&1 ) || { echo "build failed"; exit 2; }
for s in $SEEDS; do
  for id in $IDS; do echo "$id $s"; done
done | xargs -P 8 -L 1 bash -c 'out=$(VERIF_SEED=$1 ./harness/target/release/pkverif $0 '"$TIER"' 2>&1); rc=$?; echo "$0 seed=$1 rc=$rc $(echo "$out" | grep -E "^(VIOLATION|C[0-9]+ )" | tr "\n" " " | cut -c1-300)"' | sort
