#!/bin/bash
# usage: tools/confirm_seed.sh <Cxx> <i>   -- confirms seeded change /tmp/mut/out/<Cxx>/mut<i>.diff in the scratch
# worktree /tmp/mut/<Cxx>: compiles, suite passes with it, demo fails with it and passes without it.
# On success copies it to /verif/seeded/<Cxx>-<i>/ (patch.diff, demo.rs, meta.json).
set -u
ID="$1"; I="$2"; BASE="${3:-/tmp/mut}"; TAG="${4:-}"
WT=$BASE/$ID; OUT=$BASE/out/$ID
META=$OUT/meta$I.json
[ -f "$META" ] || { echo "no $META"; exit 3; }
DEMO_PATH=$(python3 -c "import json;print(json.load(open('$META'))['demo_path_in_repo'])")
DEMO_CMD=$(python3 -c "import json;print(json.load(open('$META'))['demo_cmd'])")
cd $WT || exit 3
git checkout -q -- . ; git clean -qfd -e target
git apply $OUT/mut$I.diff || { echo "RESULT $ID-$I patch-does-not-apply"; exit 1; }
SUITE=$(cargo test --workspace --offline 2>&1 | grep -E "^test result|^error" )
if echo "$SUITE" | grep -qE "FAILED|^error"; then echo "RESULT $ID-$I suite-fails-with-change"; echo "$SUITE" | grep -E "FAILED|error" | head -3; git checkout -q -- .; exit 1; fi
mkdir -p "$(dirname $DEMO_PATH)"; cp $OUT/demo$I.rs $DEMO_PATH
( eval "$DEMO_CMD" ) > $OUT/confirm$I.with.log 2>&1; RC_WITH=$?
git apply -R $OUT/mut$I.diff
( eval "$DEMO_CMD" ) > $OUT/confirm$I.without.log 2>&1; RC_WITHOUT=$?
rm -f $DEMO_PATH; git checkout -q -- . ; git clean -qfd -e target
if [ $RC_WITH -ne 0 ] && [ $RC_WITHOUT -eq 0 ]; then
  D=/verif/seeded/$ID-$TAG$I; mkdir -p $D
  cp $OUT/mut$I.diff $D/patch.diff; cp $OUT/demo$I.rs $D/demo.rs
  python3 - "$META" "$D/meta.json" <<PY
import json,sys
m=json.load(open(sys.argv[1]))
m["confirmed_by_main_session"]={"suite_passes_with_change":True,"demo_fails_with_change":True,"demo_passes_without_change":True,
  "how":"tools/confirm_seed.sh in a scratch worktree of /repo HEAD: git apply; cargo test --workspace --offline; demo placed at demo_path_in_repo and run with demo_cmd (non-zero exit); git apply -R; demo re-run (exit 0)"}
json.dump(m,open(sys.argv[2],"w"),indent=1)
PY
  echo "RESULT $ID-$TAG$I confirmed"
else
  echo "RESULT $ID-$I NOT-confirmed with=$RC_WITH without=$RC_WITHOUT"
fi
