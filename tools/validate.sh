#!/bin/bash
# validates MANIFEST.json and all evidence files against the schemas
cd /verif && python3-vt - <<'PY'
import json,jsonschema,glob,sys
ok=True
m=json.load(open('MANIFEST.json'))
jsonschema.validate(m, json.load(open('/root/.vp/MANIFEST.schema.json')))
es=json.load(open('/root/.vp/EVIDENCE.schema.json'))
for c in m['checks']:
    f=c['evidence_file']
    try:
        e=json.load(open(f)); jsonschema.validate(e, es)
        cov=e['coverage']
        print(f"{c['property_id']} ok tier={e['tier']} seed={e['seed']} evals={cov['evaluations']} nontrivial={cov['distinct_nontrivial']} samples={len(cov['samples'])} violations={e.get('violations')}")
        if e.get('violations'): ok=False
    except Exception as ex:
        ok=False; print(c['property_id'],'INVALID',str(ex)[:200])
sys.exit(0 if ok else 1)
PY
