#!/bin/bash
# usage: tools/mutcheck.sh <patch.diff> <Cxx> [quick|thorough]   -- applies a patch to /repo, runs the check, restores /repo
set -u
PATCH="$1"; ID="$2"; TIER="${3:-quick}"
if [ -n "$(git -C /repo status --porcelain --untracked-files=no)" ]; then echo "/repo is dirty, refusing" >&2; exit 3; fi
git -C /repo apply "$PATCH" || { echo "patch does not apply" >&2; exit 3; }
trap 'git -C /repo checkout -- . ' EXIT
cd /verif && timeout 900 ./check "$ID" "$TIER" 2>&1 | grep -E "^(VIOLATION|KNOWN|C[0-9]+ |BUILD|INCONCL|  stage)" | head -12
echo "exit=${PIPESTATUS[0]}"
