#!/bin/bash
# runs the thorough tier of the given (default: all) properties one after the other, printing wall time per check
cd "$(dirname "${BASH_SOURCE[0]}")/.."
IDS="${*:-C01 C02 C03 C04 C05 C06 C07 C08 C09 C10 C11 C12 C13 C14 C15 C16 C17 C18 C19}"
for id in $IDS; do
  t0=$(date +%s)
  out=$(./check $id thorough 2>&1); rc=$?
  echo "$id rc=$rc wall=$(( $(date +%s) - t0 ))s :: $(echo "$out" | grep -E "^(VIOLATION|C[0-9]+ thorough|INCONCL|FUZZ)" | tr '\n' ' ' | cut -c1-400)"
done
