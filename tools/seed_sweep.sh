#!/bin/bash
# usage: tools/seed_sweep.sh <from> <to> [ids...]  -- runs the quick tier of every (or the given) check for each seed in a
# scratch VERIF_ROOT (so that /verif/evidence is not touched) and prints only the runs that did not exit 0
FROM="$1"; TO="$2"; shift; shift
IDS="${*:-$(python3 -c "import json;print(' '.join(c['property_id'] for c in json.load(open('/verif/MANIFEST.json'))['checks']))")}"
BIN=/verif/harness/target/release/pkverif
S=$(mktemp -d /tmp/pkverif-sweep.XXXXXX)
for id in $IDS; do for s in $(seq $FROM $TO); do echo "$id $s"; done; done | xargs -P 6 -L 1 bash -c '
  r='"$S"'/$0-$1; mkdir -p $r; cp /verif/KNOWN_FINDINGS.txt $r/; mkdir -p $r/replays; cp -r /verif/replays/regress $r/replays/ 2>/dev/null
  out=$(VERIF_ROOT=$r VERIF_SEED=$1 '"$BIN"' $0 quick 2>&1); rc=$?
  if [ $rc -ne 0 ]; then echo "NONZERO $0 seed=$1 rc=$rc $(echo "$out" | grep -E "VIOLATION|stage=|self-test|INCONCL" | head -3 | tr "\n" " " | cut -c1-400)"; mkdir -p /tmp/sweep-keep; cp -r $r /tmp/sweep-keep/ 2>/dev/null; fi
  rm -rf $r'
echo "sweep $FROM..$TO done for: $IDS"
rm -rf "$S"
