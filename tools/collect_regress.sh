#!/bin/bash
# usage: tools/collect_regress.sh <name> <patch> <Cxx>  -- runs the quick check against a broken tree and keeps the
# shrunk failing cases as regression replays (replays/regress/<Cxx>-<name>-<stage>.json)
set -u
NAME="$1"; PATCH="$2"; ID="$3"
cd /verif
if [ -n "$(git -C /repo status --porcelain --untracked-files=no)" ]; then echo "/repo dirty"; exit 3; fi
git -C /repo apply "$PATCH" || exit 3
trap 'git -C /repo checkout -- .' EXIT
rm -f replays/$ID-*-seed0.json
timeout 900 ./check $ID quick >/dev/null 2>&1
mkdir -p replays/regress
n=0
for f in replays/$ID-*-seed0.json; do
  [ -f "$f" ] || continue
  stage=$(python3 -c "import json,sys;print(json.load(open('$f'))['stage'])")
  case "$stage" in regress-*) continue;; esac
  cp "$f" "replays/regress/$ID-$NAME-$stage.json"; n=$((n+1))
done
echo "$NAME $ID kept=$n"
