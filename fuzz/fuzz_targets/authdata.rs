#![no_main]
use libfuzzer_sys::fuzz_target;

fuzz_target!(|data: &[u8]| {
    pkverif::fuzzapi::authdata(data);
});
