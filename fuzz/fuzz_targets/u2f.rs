#![no_main]
use libfuzzer_sys::fuzz_target;

// counting allocator: the memory oracle inside the target reads it
#[global_allocator]
static ALLOC: pkverif::alloc::Counting = pkverif::alloc::Counting;

fuzz_target!(|data: &[u8]| {
    pkverif::fuzzapi::u2f(data);
});
