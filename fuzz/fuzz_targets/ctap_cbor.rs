#![no_main]
use libfuzzer_sys::fuzz_target;

fuzz_target!(|data: &[u8]| {
    pkverif::fuzzapi::ctap_cbor(data);
});
