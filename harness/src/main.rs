//! pkverif — property-based testing / fuzzing harness for 1Password/passkey-rs.
//! usage: pkverif <Cxx> <quick|thorough> [--replay <file>]

#![allow(clippy::type_complexity)]
#![allow(dead_code)]

mod alloc;
mod cer;
mod ceremony;
mod core;
mod hostile;
mod model;
mod props;
mod rt;

use std::cell::RefCell;

use crate::core::{Ctx, Tier};

#[global_allocator]
static GLOBAL: alloc::Counting = alloc::Counting;

thread_local! {
    pub static LAST_PANIC: RefCell<String> = const { RefCell::new(String::new()) };
}

pub fn last_panic() -> String {
    LAST_PANIC.with(|p| p.borrow().clone())
}

fn install_panic_hook() {
    let verbose = std::env::var("VERIF_VERBOSE").is_ok();
    std::panic::set_hook(Box::new(move |info| {
        let msg = if let Some(s) = info.payload().downcast_ref::<&str>() {
            s.to_string()
        } else if let Some(s) = info.payload().downcast_ref::<String>() {
            s.clone()
        } else {
            "<non-string panic>".to_string()
        };
        let loc = info.location().map(|l| format!("{}:{}", l.file(), l.line())).unwrap_or_default();
        let full = format!("{msg} @ {loc}");
        if verbose {
            eprintln!("panic: {full}");
        }
        LAST_PANIC.with(|p| *p.borrow_mut() = full);
    }));
}

fn usage() -> ! {
    eprintln!("usage: pkverif <C01..C19> <quick|thorough> [--replay <file>]");
    std::process::exit(2);
}

fn main() {
    let args: Vec<String> = std::env::args().collect();
    if args.len() < 3 {
        usage();
    }
    install_panic_hook();
    if args[1] == "__worker" {
        std::process::exit(props::worker(&args[2..]));
    }
    let id: &'static str = match props::ALL.iter().find(|p| **p == args[1]) {
        Some(p) => p,
        None => usage(),
    };
    let tier = match args[2].as_str() {
        "quick" => Tier::Quick,
        "thorough" => Tier::Thorough,
        _ => usage(),
    };
    let tier = match std::env::var("VERIF_TIER").ok().as_deref() {
        Some("quick") => Tier::Quick,
        Some("thorough") => Tier::Thorough,
        _ => tier,
    };
    let seed: u64 = std::env::var("VERIF_SEED").ok().and_then(|s| s.trim().parse::<i64>().ok()).map(|v| v as u64).unwrap_or(0);
    let mut ctx = Ctx::new(id, tier, seed);

    if let Some(pos) = args.iter().position(|a| a == "--replay") {
        let Some(path) = args.get(pos + 1) else { usage() };
        let text = match std::fs::read_to_string(path) {
            Ok(t) => t,
            Err(e) => {
                eprintln!("cannot read {path}: {e}");
                std::process::exit(2);
            }
        };
        let v: serde_json::Value = match serde_json::from_str(&text) {
            Ok(v) => v,
            Err(e) => {
                eprintln!("bad replay file: {e}");
                std::process::exit(2);
            }
        };
        ctx.strict = true;
        let stage = v.get("stage").and_then(|s| s.as_str()).unwrap_or("").to_string();
        let case = v.get("case").cloned().unwrap_or(serde_json::Value::Null);
        match props::replay(&mut ctx, &stage, &case) {
            Ok(()) => {
                println!("REPLAY property={id} stage={stage}: holds");
                std::process::exit(0);
            }
            Err(e) => {
                println!("VIOLATION property={id} replay={path}");
                println!("  stage={stage} {e}");
                std::process::exit(1);
            }
        }
    }

    // regression seeds first
    let dir = core::root().join("replays/regress");
    if let Ok(rd) = std::fs::read_dir(&dir) {
        let mut files: Vec<_> = rd.flatten().map(|e| e.path()).filter(|p| p.file_name().and_then(|n| n.to_str()).is_some_and(|n| n.starts_with(id) && n.ends_with(".json"))).collect();
        files.sort();
        let mut n = 0u64;
        for f in files {
            let Ok(text) = std::fs::read_to_string(&f) else { continue };
            let Ok(v) = serde_json::from_str::<serde_json::Value>(&text) else { continue };
            let stage = v.get("stage").and_then(|s| s.as_str()).unwrap_or("").to_string();
            let case = v.get("case").cloned().unwrap_or(serde_json::Value::Null);
            n += 1;
            if let Err(e) = props::replay(&mut ctx, &stage, &case) {
                ctx.violation(&format!("regress-{}", f.file_stem().and_then(|s| s.to_str()).unwrap_or("x")), case, &e);
            }
        }
        ctx.note("regression_replays", serde_json::json!(n));
    }

    props::run(&mut ctx);
    std::process::exit(ctx.finish());
}
