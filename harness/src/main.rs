//! pkverif — property-based testing / fuzzing harness for 1Password/passkey-rs.
//! usage: pkverif <Cxx> <quick|thorough> [--replay <file>]

use pkverif::core::{self, Ctx, Tier};
use pkverif::{alloc, install_panic_hook, props};

#[global_allocator]
static GLOBAL: alloc::Counting = alloc::Counting;

fn usage() -> ! {
    eprintln!("usage: pkverif <C01..C19> <quick|thorough> [--replay <file>]");
    std::process::exit(2);
}

fn main() {
    let args: Vec<String> = std::env::args().collect();
    if args.len() < 3 {
        usage();
    }
    install_panic_hook();
    pkverif::install_logger();
    if args[1] == "__corpus" {
        let n = args.get(3).and_then(|s| s.parse().ok()).unwrap_or(24);
        match pkverif::fuzzapi::write_corpus(std::path::Path::new(&args[2]), n) {
            Ok(()) => std::process::exit(0),
            Err(e) => {
                eprintln!("{e}");
                std::process::exit(2);
            }
        }
    }
    if args[1] == "__worker" {
        std::process::exit(props::worker(&args[2..]));
    }
    let id: &'static str = match props::ALL.iter().find(|p| **p == args[1]) {
        Some(p) => p,
        None => usage(),
    };
    let tier = match args[2].as_str() {
        "quick" => Tier::Quick,
        "thorough" => Tier::Thorough,
        _ => usage(),
    };
    let tier = match std::env::var("VERIF_TIER").ok().as_deref() {
        Some("quick") => Tier::Quick,
        Some("thorough") => Tier::Thorough,
        _ => tier,
    };
    let seed: u64 = std::env::var("VERIF_SEED").ok().and_then(|s| s.trim().parse::<i64>().ok()).map(|v| v as u64).unwrap_or(0);
    // the build configuration must be the one the caller says it is
    let bytes_as_text = serde_json::to_string(&passkey_types::Bytes::from(vec![1u8])).map(|s| s.starts_with('"')).unwrap_or(false);
    let want_text = pkverif::core::variant().as_deref() == Some("b64");
    if bytes_as_text != want_text || (pkverif::core::variant().is_some() && !want_text) {
        eprintln!("harness built {} the library's serialize_bytes_as_base64_string feature but VERIF_VARIANT={:?}", if bytes_as_text { "with" } else { "without" }, pkverif::core::variant());
        std::process::exit(2);
    }
    let mut ctx = Ctx::new(id, tier, seed);

    if let Some(pos) = args.iter().position(|a| a == "--replay") {
        let Some(path) = args.get(pos + 1) else { usage() };
        let text = match std::fs::read(path) {
            Ok(t) => String::from_utf8_lossy(&t).to_string(),
            Err(e) => {
                eprintln!("cannot read {path}: {e}");
                std::process::exit(2);
            }
        };
        let v: serde_json::Value = match serde_json::from_str::<serde_json::Value>(&text) {
            Ok(v) if v.get("case").is_some() => v,
            _ => {
                // not one of our replay files: a raw fuzz artifact for one of this property's fuzz targets
                let bytes = std::fs::read(path).unwrap_or_default();
                let targets: Vec<&str> = pkverif::fuzzapi::targets_for(id).iter().copied().filter(|t| !pkverif::fuzzapi::TARGETS.iter().any(|o| path.contains(&format!("/{o}/"))) || path.contains(&format!("/{t}/"))).collect();
                if targets.is_empty() {
                    eprintln!("bad replay file for {id}");
                    std::process::exit(2);
                }
                for t in targets {
                    let r = std::panic::catch_unwind(|| pkverif::fuzzapi::run_target(t, &bytes));
                    if r.is_err() {
                        println!("VIOLATION property={id} replay={path}");
                        println!("  stage=fuzz:{t} {}", pkverif::last_panic());
                        std::process::exit(1);
                    }
                }
                println!("REPLAY property={id} fuzz artifact: holds");
                std::process::exit(0);
            }
        };
        ctx.strict = true;
        let stage = v.get("stage").and_then(|s| s.as_str()).unwrap_or("").to_string();
        let case = v.get("case").cloned().unwrap_or(serde_json::Value::Null);
        match props::replay(&mut ctx, &stage, &case) {
            Ok(()) => {
                println!("REPLAY property={id} stage={stage}: holds");
                std::process::exit(0);
            }
            Err(e) if e.starts_with("NOT-APPLICABLE:") => {
                eprintln!("{e}");
                std::process::exit(2);
            }
            Err(e) => {
                println!("VIOLATION property={id} replay={path}");
                println!("  stage={stage} {e}");
                std::process::exit(1);
            }
        }
    }

    // known-answer self-tests of the reference models: a broken oracle is exit 2, never a verdict
    if let Err(e) = pkverif::model::selftest::crypto() {
        eprintln!("harness self-test failed: {e}");
        std::process::exit(2);
    }
    if ["C01", "C10"].contains(&id) {
        match pkverif::model::psl::Psl::load().and_then(|p| pkverif::model::selftest::psl(&p)) {
            Ok(()) => {}
            Err(e) => {
                eprintln!("harness self-test failed: {e}");
                std::process::exit(2);
            }
        }
    }

    // thorough tier of the generator-driven engines: run as parallel shards and merge
    const SHARDED: [&str; 15] = ["C01", "C02", "C03", "C05", "C06", "C07", "C08", "C09", "C10", "C12", "C13", "C14", "C16", "C17", "C19"];
    if tier == Tier::Thorough && SHARDED.contains(&id) && std::env::var("VERIF_SHARDS").is_err() && std::env::var("VERIF_NO_SHARDS").is_err() {
        let n = std::thread::available_parallelism().map(|n| n.get() as u64).unwrap_or(4).clamp(2, 12);
        std::process::exit(core::run_sharded(id, seed, n));
    }

    // regression seeds first
    let dir = core::root().join("replays/regress");
    if !ctx.first_shard() {
        // regression replays run on the first shard only
    } else if let Ok(rd) = std::fs::read_dir(&dir) {
        let mut files: Vec<_> = rd.flatten().map(|e| e.path()).filter(|p| p.file_name().and_then(|n| n.to_str()).is_some_and(|n| n.starts_with(id) && n.ends_with(".json"))).collect();
        files.sort();
        let mut n = 0u64;
        for f in files {
            let Ok(text) = std::fs::read_to_string(&f) else { continue };
            let Ok(v) = serde_json::from_str::<serde_json::Value>(&text) else { continue };
            let stage = v.get("stage").and_then(|s| s.as_str()).unwrap_or("").to_string();
            let case = v.get("case").cloned().unwrap_or(serde_json::Value::Null);
            // a replay recorded under another build configuration belongs to that configuration's run
            if v.get("variant").and_then(|s| s.as_str()).map(|s| s.to_string()) != core::variant() {
                continue;
            }
            n += 1;
            if let Err(e) = props::replay(&mut ctx, &stage, &case) {
                if e.starts_with("NOT-APPLICABLE:") {
                    ctx.measure("regression_replays_not_applicable_to_this_tree", 1);
                    continue;
                }
                ctx.violation(&format!("regress-{}", f.file_stem().and_then(|s| s.to_str()).unwrap_or("x")), case, &e);
            }
        }
        ctx.note("regression_replays", serde_json::json!(n));
    }

    props::run(&mut ctx);
    std::process::exit(ctx.finish());
}
