//! Mini executor (manual polling), yield futures, instrumented doubles of the public
//! `UserValidationMethod` and `CredentialStore` traits.

use std::collections::BTreeMap;
use std::future::Future;
use std::pin::Pin;
use std::sync::atomic::{AtomicBool, Ordering};
use std::sync::{Arc, Mutex};
use std::task::{Context, Poll, Wake, Waker};

use passkey_authenticator::{CredentialStore, DiscoverabilitySupport, StoreInfo, UserCheck, UserValidationMethod};
use passkey_types::ctap2::make_credential::{PublicKeyCredentialRpEntity, PublicKeyCredentialUserEntity};
use passkey_types::ctap2::{get_assertion::Options, Ctap2Error, StatusCode};
use passkey_types::webauthn::PublicKeyCredentialDescriptor;
use passkey_types::Passkey;
use serde::{Deserialize, Serialize};

// ---------------------------------------------------------------- executor

struct Flag(AtomicBool);
impl Wake for Flag {
    fn wake(self: Arc<Self>) {
        self.0.store(true, Ordering::SeqCst);
    }
    fn wake_by_ref(self: &Arc<Self>) {
        self.0.store(true, Ordering::SeqCst);
    }
}

/// A future polled by hand.
pub struct Task<'a, T> {
    fut: Option<Pin<Box<dyn Future<Output = T> + 'a>>>,
    flag: Arc<Flag>,
    pub polls: usize,
    pub output: Option<T>,
}

impl<'a, T> Task<'a, T> {
    pub fn new(f: impl Future<Output = T> + 'a) -> Self {
        Task { fut: Some(Box::pin(f)), flag: Arc::new(Flag(AtomicBool::new(true))), polls: 0, output: None }
    }
    pub fn is_done(&self) -> bool {
        self.output.is_some() || self.fut.is_none()
    }
    /// woken since its last poll (or never polled)
    pub fn is_runnable(&self) -> bool {
        !self.is_done() && self.flag.0.load(Ordering::SeqCst)
    }
    /// poll once; true if it completed
    pub fn poll(&mut self) -> bool {
        let Some(f) = self.fut.as_mut() else { return true };
        self.flag.0.store(false, Ordering::SeqCst);
        let waker = Waker::from(self.flag.clone());
        let mut cx = Context::from_waker(&waker);
        self.polls += 1;
        match f.as_mut().poll(&mut cx) {
            Poll::Ready(v) => {
                self.output = Some(v);
                self.fut = None;
                true
            }
            Poll::Pending => false,
        }
    }
    /// drop the future without completing it (cancellation)
    pub fn cancel(&mut self) {
        self.fut = None;
    }
}

#[derive(Debug)]
pub struct Deadlock;

/// Run to completion; a pending future that nobody woke is a deadlock.
pub fn try_block_on<T>(f: impl Future<Output = T>) -> Result<T, Deadlock> {
    let mut t = Task::new(f);
    loop {
        if t.poll() {
            return Ok(t.output.take().unwrap());
        }
        if !t.is_runnable() {
            return Err(Deadlock);
        }
    }
}

pub fn block_on<T>(f: impl Future<Output = T>) -> T {
    try_block_on(f).expect("future is pending but was not woken (deadlock)")
}

/// Suspends `n` times (waking itself each time).
pub struct YieldN(pub usize);
impl Future for YieldN {
    type Output = ();
    fn poll(mut self: Pin<&mut Self>, cx: &mut Context<'_>) -> Poll<()> {
        if self.0 == 0 {
            Poll::Ready(())
        } else {
            self.0 -= 1;
            cx.waker().wake_by_ref();
            Poll::Pending
        }
    }
}

// ---------------------------------------------------------------- user validation double

#[derive(Clone, Debug, Serialize, Deserialize, PartialEq, Eq, Hash)]
pub struct UvScript {
    pub presence_enabled: bool,
    /// None / Some(false) / Some(true)
    pub verification_enabled: Option<bool>,
    /// Ok((presence, verification)) or Err(status byte of a Ctap2Error)
    pub outcome: Result<(bool, bool), u8>,
    pub yields: usize,
}

impl UvScript {
    /// present and verified, configured verification
    pub fn verified() -> Self {
        UvScript { presence_enabled: true, verification_enabled: Some(true), outcome: Ok((true, true)), yields: 0 }
    }
    pub fn present_only() -> Self {
        UvScript { presence_enabled: true, verification_enabled: Some(true), outcome: Ok((true, false)), yields: 0 }
    }
}

#[derive(Clone, Debug, PartialEq, Eq)]
pub struct UvCall {
    pub credential_id: Option<Vec<u8>>,
    pub up: bool,
    pub uv: bool,
}

#[derive(Clone)]
pub struct ScriptedUv {
    pub script: Arc<Mutex<UvScript>>,
    pub log: Arc<Mutex<Vec<UvCall>>>,
    /// run once, by the next check_user call (something that happens while the user is being asked)
    pub hook: Arc<Mutex<Option<Box<dyn FnOnce() + Send>>>>,
    /// while set, a consenting user gives exactly what the ceremony asks for (presence / verification) instead of the
    /// script's fixed outcome; error outcomes of the script still apply
    pub as_asked: Arc<std::sync::atomic::AtomicBool>,
}

impl ScriptedUv {
    pub fn new(script: UvScript) -> Self {
        ScriptedUv { script: Arc::new(Mutex::new(script)), log: Arc::new(Mutex::new(vec![])), hook: Arc::new(Mutex::new(None)), as_asked: Arc::new(std::sync::atomic::AtomicBool::new(false)) }
    }
    pub fn set_as_asked(&self, on: bool) {
        self.as_asked.store(on, std::sync::atomic::Ordering::SeqCst);
    }
    pub fn on_next_check(&self, f: impl FnOnce() + Send + 'static) {
        *self.hook.lock().unwrap() = Some(Box::new(f));
    }
    pub fn calls(&self) -> Vec<UvCall> {
        self.log.lock().unwrap().clone()
    }
    pub fn set(&self, s: UvScript) {
        *self.script.lock().unwrap() = s;
    }
}

#[async_trait::async_trait]
impl UserValidationMethod for ScriptedUv {
    type PasskeyItem = Passkey;

    async fn check_user<'a>(&self, credential: Option<&'a Passkey>, presence: bool, verification: bool) -> Result<UserCheck, Ctap2Error> {
        let script = self.script.lock().unwrap().clone();
        self.log.lock().unwrap().push(UvCall { credential_id: credential.map(|c| c.credential_id.to_vec()), up: presence, uv: verification });
        let hook = self.hook.lock().unwrap().take();
        if let Some(h) = hook {
            h();
        }
        YieldN(script.yields).await;
        match script.outcome {
            Ok(_) if self.as_asked.load(std::sync::atomic::Ordering::SeqCst) => Ok(UserCheck { presence, verification }),
            Ok((p, v)) => Ok(UserCheck { presence: p, verification: v }),
            Err(b) => Err(Ctap2Error::try_from(b).unwrap_or(Ctap2Error::OperationDenied)),
        }
    }

    fn is_presence_enabled(&self) -> bool {
        self.script.lock().unwrap().presence_enabled
    }

    fn is_verification_enabled(&self) -> Option<bool> {
        self.script.lock().unwrap().verification_enabled
    }
}

// ---------------------------------------------------------------- reference store

#[derive(Clone, Copy, Debug, PartialEq, Eq, Hash, Serialize, Deserialize)]
pub enum Disc {
    Full,
    OnlyNonDiscoverable,
    ForcedDiscoverable,
}

impl Disc {
    pub fn to_lib(self) -> DiscoverabilitySupport {
        match self {
            Disc::Full => DiscoverabilitySupport::Full,
            Disc::OnlyNonDiscoverable => DiscoverabilitySupport::OnlyNonDiscoverable,
            Disc::ForcedDiscoverable => DiscoverabilitySupport::ForcedDiscoverable,
        }
    }
    /// the statement's rule: full = as requested; non-discoverable only = never; forced = always
    pub fn discoverable(self, rk: bool) -> bool {
        match self {
            Disc::Full => rk,
            Disc::OnlyNonDiscoverable => false,
            Disc::ForcedDiscoverable => true,
        }
    }
    pub const ALL: [Disc; 3] = [Disc::Full, Disc::OnlyNonDiscoverable, Disc::ForcedDiscoverable];
}

#[derive(Clone, Debug, PartialEq, Eq)]
pub enum StoreCall {
    Find { ids: Option<Vec<Vec<u8>>>, rp_id: String, returned: Result<Vec<Vec<u8>>, u8> },
    Save { cred_id: Vec<u8>, cred_rp: String, rp_arg: String, user_id: Vec<u8>, rk: bool, up: bool, uv: bool, result: Result<(), u8>, labels: (Option<String>, Option<String>, Option<String>) },
    Update { cred_id: Vec<u8>, counter: Option<u32>, result: Result<(), u8> },
    Info,
}

impl StoreCall {
    pub fn kind(&self) -> &'static str {
        match self {
            StoreCall::Find { .. } => "find",
            StoreCall::Save { .. } => "save",
            StoreCall::Update { .. } => "update",
            StoreCall::Info => "info",
        }
    }
}

pub struct RefStoreInner {
    pub creds: Vec<Passkey>,
    pub log: Vec<StoreCall>,
    pub disc: Disc,
    /// index among the fallible calls (find/save/update) -> status byte to fail with
    pub faults: BTreeMap<usize, u8>,
    pub fallible_calls: usize,
    pub yields: usize,
    /// bumps on every mutation (for "no partial write" checks)
    pub version: u64,
    /// answer a lookup that matches nothing with Ok(vec![]) instead of NoCredentials (both are within the contract)
    pub empty_ok: bool,
    /// injected fault byte 0 is returned as Ctap1(Success) instead of what the byte decodes to
    pub zero_as_ctap1_success: bool,
    /// a lagging lookup index: lookups only see the first n records (what was held when the lag was set)
    pub lag: Option<usize>,
    /// a store that does not persist signature counters (as the Passkey::counter documentation recommends for synced
    /// credentials): records are kept with counter None
    pub strip_counters: bool,
    /// the next save_credential call is refused with this status byte (one shot)
    pub fail_next_save: Option<u8>,
}

/// Reference credential store with the documented contract semantics:
/// find = { c | c.rp_id == rp_id and (ids is None or c.id in ids) } in insertion order.
#[derive(Clone)]
pub struct RefStore(pub Arc<Mutex<RefStoreInner>>);

impl RefStore {
    pub fn new(disc: Disc) -> Self {
        RefStore(Arc::new(Mutex::new(RefStoreInner { creds: vec![], log: vec![], disc, faults: BTreeMap::new(), fallible_calls: 0, yields: 0, version: 0, empty_ok: false, zero_as_ctap1_success: false, lag: None, strip_counters: false, fail_next_save: None })))
    }
    pub fn with(disc: Disc, creds: Vec<Passkey>) -> Self {
        let s = Self::new(disc);
        s.0.lock().unwrap().creds = creds;
        s
    }
    pub fn creds(&self) -> Vec<Passkey> {
        self.0.lock().unwrap().creds.clone()
    }
    pub fn log(&self) -> Vec<StoreCall> {
        self.0.lock().unwrap().log.clone()
    }
    pub fn clear_log(&self) {
        let mut g = self.0.lock().unwrap();
        g.log.clear();
    }
    pub fn set_faults(&self, f: BTreeMap<usize, u8>) {
        let mut g = self.0.lock().unwrap();
        g.faults = f;
        g.fallible_calls = 0;
    }
    /// lookups keep seeing only what is held now (records saved later stay invisible to them)
    pub fn set_lagging(&self, on: bool) {
        let mut g = self.0.lock().unwrap();
        g.lag = on.then_some(g.creds.len());
    }
    pub fn set_fail_next_save(&self, code: Option<u8>) {
        self.0.lock().unwrap().fail_next_save = code;
    }
    pub fn set_strip_counters(&self, on: bool) {
        self.0.lock().unwrap().strip_counters = on;
    }
    pub fn set_empty_ok(&self, on: bool) {
        self.0.lock().unwrap().empty_ok = on;
    }
    /// put a credential in front of all others (it becomes the first the store lists)
    pub fn prepend(&self, pk: Passkey) {
        let mut g = self.0.lock().unwrap();
        g.version += 1;
        g.creds.insert(0, pk);
    }
    pub fn set_disc(&self, d: Disc) {
        self.0.lock().unwrap().disc = d;
    }
    pub fn set_yields(&self, n: usize) {
        self.0.lock().unwrap().yields = n;
    }
    fn fault(&self) -> Option<u8> {
        let mut g = self.0.lock().unwrap();
        let i = g.fallible_calls;
        g.fallible_calls += 1;
        g.faults.get(&i).copied()
    }
    fn yields(&self) -> usize {
        self.0.lock().unwrap().yields
    }
    /// the status value an injected fault byte stands for: a byte decodes to one value, but 0 is also the byte of the
    /// CTAP1 "success" status, which a store can return as an error value too
    fn status(&self, b: u8) -> StatusCode {
        let zero = self.0.lock().unwrap().zero_as_ctap1_success;
        status_of(b, zero)
    }
    pub fn set_zero_as_ctap1_success(&self, on: bool) {
        self.0.lock().unwrap().zero_as_ctap1_success = on;
    }
}

fn status_of(b: u8, zero_as_ctap1_success: bool) -> StatusCode {
    if b == 0 && zero_as_ctap1_success {
        StatusCode::Ctap1(passkey_types::ctap2::U2FError::Success)
    } else {
        StatusCode::from(b)
    }
}

/// the contract semantics of find_credentials, as a pure function
pub fn contract_find<'a>(creds: &'a [Passkey], ids: Option<&[Vec<u8>]>, rp_id: &str) -> Vec<&'a Passkey> {
    creds.iter().filter(|c| c.rp_id == rp_id && ids.map_or(true, |ids| ids.iter().any(|i| i.as_slice() == c.credential_id.as_slice()))).collect()
}

#[async_trait::async_trait]
impl CredentialStore for RefStore {
    type PasskeyItem = Passkey;

    async fn find_credentials(&self, ids: Option<&[PublicKeyCredentialDescriptor]>, rp_id: &str) -> Result<Vec<Passkey>, StatusCode> {
        YieldN(self.yields()).await;
        let idv: Option<Vec<Vec<u8>>> = ids.map(|l| l.iter().map(|d| d.id.to_vec()).collect());
        if let Some(b) = self.fault() {
            self.0.lock().unwrap().log.push(StoreCall::Find { ids: idv, rp_id: rp_id.to_string(), returned: Err(b) });
            return Err(self.status(b));
        }
        let mut g = self.0.lock().unwrap();
        let visible = g.lag.map_or(g.creds.len(), |n| n.min(g.creds.len()));
        let found: Vec<Passkey> = contract_find(&g.creds[..visible], idv.as_deref(), rp_id).into_iter().cloned().collect();
        let ret_ids = found.iter().map(|c| c.credential_id.to_vec()).collect();
        g.log.push(StoreCall::Find { ids: idv, rp_id: rp_id.to_string(), returned: Ok(ret_ids) });
        if found.is_empty() && !g.empty_ok {
            Err(Ctap2Error::NoCredentials.into())
        } else {
            Ok(found)
        }
    }

    async fn save_credential(&mut self, cred: Passkey, user: PublicKeyCredentialUserEntity, rp: PublicKeyCredentialRpEntity, options: Options) -> Result<(), StatusCode> {
        YieldN(self.yields()).await;
        let fault = self.fault();
        let mut g = self.0.lock().unwrap();
        let fault = fault.or(g.fail_next_save.take());
        g.log.push(StoreCall::Save {
            cred_id: cred.credential_id.to_vec(),
            cred_rp: cred.rp_id.clone(),
            rp_arg: rp.id.clone(),
            user_id: user.id.to_vec(),
            rk: options.rk,
            up: options.up,
            uv: options.uv,
            result: fault.map_or(Ok(()), Err),
            labels: (user.name.clone(), user.display_name.clone(), rp.name.clone()),
        });
        if let Some(b) = fault {
            let zero = g.zero_as_ctap1_success;
            drop(g);
            return Err(status_of(b, zero));
        }
        g.version += 1;
        // a record with the same (RP ID, credential id) is replaced, like in a keyed store
        g.creds.retain(|c| !(c.credential_id == cred.credential_id && c.rp_id == cred.rp_id));
        let mut cred = cred;
        if g.strip_counters {
            cred.counter = None;
        }
        g.creds.push(cred);
        Ok(())
    }

    async fn update_credential(&mut self, cred: Passkey) -> Result<(), StatusCode> {
        YieldN(self.yields()).await;
        let fault = self.fault();
        let mut g = self.0.lock().unwrap();
        g.log.push(StoreCall::Update { cred_id: cred.credential_id.to_vec(), counter: cred.counter, result: fault.map_or(Ok(()), Err) });
        if let Some(b) = fault {
            let zero = g.zero_as_ctap1_success;
            drop(g);
            return Err(status_of(b, zero));
        }
        g.version += 1;
        if let Some(slot) = g.creds.iter_mut().find(|c| c.credential_id == cred.credential_id) {
            *slot = cred;
            Ok(())
        } else {
            Err(Ctap2Error::NoCredentials.into())
        }
    }

    async fn get_info(&self) -> StoreInfo {
        let mut g = self.0.lock().unwrap();
        g.log.push(StoreCall::Info);
        StoreInfo { discoverability: g.disc.to_lib() }
    }
}
