//! pkverif library: engines, models and oracles of the property-based testing / fuzzing harness
//! for 1Password/passkey-rs (shared by the `pkverif` binary and the cargo-fuzz targets).

#![allow(clippy::type_complexity)]
#![allow(dead_code)]

pub mod alloc;
pub mod cer;
pub mod ceremony;
pub mod core;
pub mod fuzzapi;
pub mod hostile;
pub mod model;
pub mod props;
pub mod rt;

use std::cell::RefCell;

thread_local! {
    pub static LAST_PANIC: RefCell<String> = const { RefCell::new(String::new()) };
}

pub fn last_panic() -> String {
    LAST_PANIC.with(|p| p.borrow().clone())
}

pub fn install_panic_hook() {
    let verbose = std::env::var("VERIF_VERBOSE").is_ok();
    std::panic::set_hook(Box::new(move |info| {
        let msg = if let Some(s) = info.payload().downcast_ref::<&str>() {
            s.to_string()
        } else if let Some(s) = info.payload().downcast_ref::<String>() {
            s.clone()
        } else {
            "<non-string panic>".to_string()
        };
        let loc = info.location().map(|l| format!("{}:{}", l.file(), l.line())).unwrap_or_default();
        let full = format!("{msg} @ {loc}");
        if verbose {
            eprintln!("panic: {full}");
        }
        LAST_PANIC.with(|p| *p.borrow_mut() = full);
    }));
}
