//! pkverif library: engines, models and oracles of the property-based testing / fuzzing harness
//! for 1Password/passkey-rs (shared by the `pkverif` binary and the cargo-fuzz targets).

#![allow(clippy::type_complexity)]
#![allow(dead_code)]

pub mod alloc;
pub mod cer;
pub mod ceremony;
pub mod core;
pub mod fuzzapi;
pub mod hostile;
pub mod model;
pub mod props;
pub mod rt;

use std::cell::RefCell;

thread_local! {
    pub static LAST_PANIC: RefCell<String> = const { RefCell::new(String::new()) };
}

pub fn last_panic() -> String {
    LAST_PANIC.with(|p| p.borrow().clone())
}

/// A logger that accepts every record at every level and formats it into nothing: the arguments of every log statement
/// in the library are evaluated (as they are in an application that logs at trace level), so a panic hidden in one shows.
struct EagerLogger;

impl log::Log for EagerLogger {
    fn enabled(&self, _: &log::Metadata) -> bool {
        true
    }
    fn log(&self, record: &log::Record) {
        use std::fmt::Write;
        struct Sink;
        impl Write for Sink {
            fn write_str(&mut self, _: &str) -> std::fmt::Result {
                Ok(())
            }
        }
        let _ = write!(Sink, "{}", record.args());
    }
    fn flush(&self) {}
}

pub fn install_logger() {
    static L: EagerLogger = EagerLogger;
    let _ = log::set_logger(&L);
    log::set_max_level(log::LevelFilter::Trace);
}

pub fn install_panic_hook() {
    let verbose = std::env::var("VERIF_VERBOSE").is_ok();
    std::panic::set_hook(Box::new(move |info| {
        let msg = if let Some(s) = info.payload().downcast_ref::<&str>() {
            s.to_string()
        } else if let Some(s) = info.payload().downcast_ref::<String>() {
            s.clone()
        } else {
            "<non-string panic>".to_string()
        };
        let loc = info.location().map(|l| format!("{}:{}", l.file(), l.line())).unwrap_or_default();
        let full = format!("{msg} @ {loc}");
        if verbose {
            eprintln!("panic: {full}");
        }
        LAST_PANIC.with(|p| *p.borrow_mut() = full);
    }));
}
