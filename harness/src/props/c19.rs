//! C19 — shared-store concurrency never reuses a counter or loses a credential.
//! The harness owns the schedule: ceremonies are futures polled by hand; every schedule of
//! "poll runnable task k" is enumerated (DFS by prefix replay) for small configurations and
//! generated (shrinkable choice vectors) beyond.

use std::sync::{Arc, Mutex as StdMutex};

use passkey_authenticator::{Authenticator, CredentialStore, MemoryStore, StoreInfo};
use passkey_types::ctap2::make_credential::{PublicKeyCredentialRpEntity, PublicKeyCredentialUserEntity};
use passkey_types::ctap2::{get_assertion, make_credential, StatusCode};
use passkey_types::webauthn::PublicKeyCredentialDescriptor;
use passkey_types::Passkey;
use proptest::prelude::*;
use serde::{Deserialize, Serialize};
use serde_json::{json, Value};

use crate::cer::{self, AuthCfg};
use crate::core::{search, Ctx, Search};
use crate::model::util::make_passkey;
use crate::rt::{ScriptedUv, Task, UvScript, YieldN};

pub const SIG_D13: &str = "assert-assert-overlap-lost-update";
const RP: &str = "example.com";

// ------------------------------------------------------------------ store doubles

/// inner store that suspends inside every call (so that a lock wrapper holds its guard across a suspension)
pub struct YieldStore {
    inner: MemoryStore,
    yields: usize,
    /// capability reported by get_info: 0 what MemoryStore says (forced discoverable), 1 full, 2 non-discoverable only
    disc: u8,
    /// the n-th update_credential call (counted over all authenticators) is refused with this status
    fail_update: Option<(usize, u8)>,
    updates_seen: usize,
    /// every update call as it reaches the store itself: (credential id, counter)
    writes: Vec<(Vec<u8>, Option<u32>)>,
    /// listing order of lookups: new credentials before the pre-loaded ones (otherwise after them)
    new_first: bool,
}

#[async_trait::async_trait]
impl CredentialStore for YieldStore {
    type PasskeyItem = Passkey;
    async fn find_credentials(&self, ids: Option<&[PublicKeyCredentialDescriptor]>, rp_id: &str) -> Result<Vec<Passkey>, StatusCode> {
        YieldN(self.yields).await;
        // the map lists in hash order, which differs from process to process; the double lists by id, the pre-loaded
        // "c19-held-..." credentials before or after the new ones depending on the configuration: the same configuration and
        // schedule give the same run, and both orders occur
        let mut v = self.inner.find_credentials(ids, rp_id).await?;
        let nf = self.new_first;
        v.sort_by(|a, b| (a.credential_id.starts_with(b"c19-held-") == nf, a.credential_id.to_vec()).cmp(&(b.credential_id.starts_with(b"c19-held-") == nf, b.credential_id.to_vec())));
        Ok(v)
    }
    async fn save_credential(&mut self, cred: Passkey, user: PublicKeyCredentialUserEntity, rp: PublicKeyCredentialRpEntity, options: get_assertion::Options) -> Result<(), StatusCode> {
        YieldN(self.yields).await;
        self.inner.save_credential(cred, user, rp, options).await
    }
    async fn update_credential(&mut self, cred: Passkey) -> Result<(), StatusCode> {
        YieldN(self.yields).await;
        let n = self.updates_seen;
        self.updates_seen += 1;
        self.writes.push((cred.credential_id.to_vec(), cred.counter));
        if let Some((k, code)) = self.fail_update {
            if k == n {
                return Err(StatusCode::from(code));
            }
        }
        // row-update semantics: an update rewrites the record it finds and adds nothing (saving is what adds)
        if !self.inner.contains_key(cred.credential_id.as_slice()) {
            return Ok(());
        }
        self.inner.update_credential(cred).await
    }
    async fn get_info(&self) -> StoreInfo {
        match self.disc % 3 {
            1 => StoreInfo { discoverability: passkey_authenticator::DiscoverabilitySupport::Full },
            2 => StoreInfo { discoverability: passkey_authenticator::DiscoverabilitySupport::OnlyNonDiscoverable },
            _ => self.inner.get_info().await,
        }
    }
}

#[derive(Clone, Debug, PartialEq)]
pub struct Ev {
    pub tag: usize,
    pub kind: &'static str,
    pub begin: bool,
    pub cred: Option<Vec<u8>>,
    /// update calls: the counter the authenticator hands to the shared store
    pub counter: Option<u32>,
}

/// per-authenticator tagging wrapper around the shared lock wrapper: logs begin/end of each call
pub struct Tagged<W> {
    tag: usize,
    inner: W,
    log: Arc<StdMutex<Vec<Ev>>>,
}

impl<W> Tagged<W> {
    fn ev(&self, kind: &'static str, begin: bool, cred: Option<Vec<u8>>) {
        self.log.lock().unwrap().push(Ev { tag: self.tag, kind, begin, cred, counter: None });
    }
}

#[async_trait::async_trait]
impl<W: CredentialStore<PasskeyItem = Passkey> + Send + Sync> CredentialStore for Tagged<W> {
    type PasskeyItem = Passkey;
    async fn find_credentials(&self, ids: Option<&[PublicKeyCredentialDescriptor]>, rp_id: &str) -> Result<Vec<Passkey>, StatusCode> {
        self.ev("find", true, None);
        let r = self.inner.find_credentials(ids, rp_id).await;
        self.ev("find", false, r.as_ref().ok().and_then(|v| v.first()).map(|c| c.credential_id.to_vec()));
        r
    }
    async fn save_credential(&mut self, cred: Passkey, user: PublicKeyCredentialUserEntity, rp: PublicKeyCredentialRpEntity, options: get_assertion::Options) -> Result<(), StatusCode> {
        let id = cred.credential_id.to_vec();
        self.ev("save", true, Some(id.clone()));
        let r = self.inner.save_credential(cred, user, rp, options).await;
        self.ev("save", false, Some(id));
        r
    }
    async fn update_credential(&mut self, cred: Passkey) -> Result<(), StatusCode> {
        let id = cred.credential_id.to_vec();
        self.log.lock().unwrap().push(Ev { tag: self.tag, kind: "update", begin: true, cred: Some(id.clone()), counter: cred.counter });
        let r = self.inner.update_credential(cred).await;
        self.ev("update", false, Some(id));
        r
    }
    async fn get_info(&self) -> StoreInfo {
        self.inner.get_info().await
    }
}

// ------------------------------------------------------------------ configuration

#[derive(Clone, Copy, Debug, Serialize, Deserialize, PartialEq, Eq, Hash)]
pub enum Lock {
    ArcMutex,
    ArcRwLock,
}

#[derive(Clone, Debug, Serialize, Deserialize, PartialEq, Eq, Hash)]
pub enum Cer {
    /// assertion on held credential k (0 or 1), with or without allow list
    Assert { cred: u8, allow: bool },
    /// registration for user u (0 or 1)
    Register { user: u8 },
    /// registration whose exclude list names held credential 0: must be refused, whatever the schedule
    RegisterExcluded,
    /// assertion on held credential k that the authenticator refuses late: it asks for a PRF evaluation on an
    /// hmac-secret authenticator while the credential holds no secrets (the refusal comes after the user prompt;
    /// the counter may have been advanced by then)
    AssertRefused { cred: u8 },
    /// a silent assertion on held credential k: the request waives user presence (up = false); it is an assertion like
    /// any other as far as counters go
    AssertSilent { cred: u8 },
    /// an assertion on held credential k during which the user declines: it fails and leaves the shared store alone
    AssertDeclined { cred: u8 },
    /// an assertion whose allow list names both held credentials (credential k first)
    AssertTwoIds { cred: u8 },
}

#[derive(Clone, Debug, Serialize, Deserialize, PartialEq, Eq, Hash)]
pub struct Config {
    pub lock: Lock,
    pub store_yields: usize,
    pub uv_yields: Vec<usize>,
    pub cers: Vec<Cer>,
    /// start counter of the held credentials
    pub counter: u32,
    /// store capability (see YieldStore::disc); registrations ask for rk=false
    #[serde(default)]
    pub disc: u8,
    /// the n-th counter update that reaches the store (whichever ceremony issues it) is refused with this status byte
    #[serde(default)]
    pub fail_update: Option<(u8, u8)>,
}

#[derive(Clone, Debug, PartialEq)]
pub enum Done {
    Asserted { cred: Vec<u8>, counter: u32 },
    Registered { cred: Vec<u8> },
    Failed(u8),
    /// a registration that had to be refused as excluded was refused
    Excluded,
    /// an assertion that was expected to be refused was refused
    Refused,
    /// the user declined and the assertion failed
    Declined,
}

pub struct RunOut {
    pub results: Vec<Option<Done>>,
    pub deadlock: bool,
    pub events: Vec<Ev>,
    pub final_store: Vec<(Vec<u8>, Option<u32>)>,
    /// update calls as they reached the store behind the lock wrapper
    pub writes: Vec<(Vec<u8>, Option<u32>)>,
    pub choices: Vec<usize>,
    pub branching: Vec<usize>,
    pub switches: usize,
}

fn held_id(k: u8) -> Vec<u8> {
    format!("c19-held-cred-{:02}", k % 2).into_bytes()
}

type Fut<'a> = std::pin::Pin<Box<dyn std::future::Future<Output = Done> + 'a>>;

fn make_tasks<W>(cfg: &Config, shared: &W, log: &Arc<StdMutex<Vec<Ev>>>) -> Vec<Task<'static, Done>>
where
    W: CredentialStore<PasskeyItem = Passkey> + Clone + Send + Sync + 'static,
{
    let mut tasks = vec![];
    let single = cfg.cers.iter().any(|c| matches!(c, Cer::Assert { allow: false, .. }));
    for (t, c) in cfg.cers.iter().enumerate() {
        let declines = matches!(c, Cer::AssertDeclined { .. });
        let uv = ScriptedUv::new(UvScript { yields: cfg.uv_yields.get(t).copied().unwrap_or(0), outcome: if declines { Err(0x27) } else { Ok((true, true)) }, ..UvScript::verified() });
        let store = Tagged { tag: t, inner: shared.clone(), log: log.clone() };
        let hmac = if matches!(c, Cer::AssertRefused { .. }) { cer::HmacCfg::UvOnly } else { cer::HmacCfg::None };
        let mut auth: Authenticator<Tagged<W>, ScriptedUv> = cer::build_authenticator(store, uv, &AuthCfg { counter: true, hmac, ..Default::default() });
        let fut: Fut<'static> = match c.clone() {
            Cer::Assert { cred, allow } => Box::pin(async move {
                let req = get_assertion::Request {
                    rp_id: RP.into(),
                    client_data_hash: vec![t as u8; 32].into(),
                    allow_list: allow.then(|| vec![cer::descriptor(&held_id(if single { 0 } else { cred }))]),
                    extensions: None,
                    options: get_assertion::Options { rk: false, up: true, uv: true },
                    pin_auth: None,
                    pin_protocol: None,
                };
                match auth.get_assertion(req).await {
                    Ok(r) => Done::Asserted { cred: r.credential.map(|c| c.id.to_vec()).unwrap_or_default(), counter: u32::from_be_bytes(r.auth_data.to_vec()[33..37].try_into().unwrap()) },
                    Err(e) => Done::Failed(e.into()),
                }
            }),
            Cer::AssertDeclined { cred } => Box::pin(async move {
                let req = get_assertion::Request {
                    rp_id: RP.into(),
                    client_data_hash: vec![t as u8; 32].into(),
                    allow_list: Some(vec![cer::descriptor(&held_id(if single { 0 } else { cred }))]),
                    extensions: None,
                    options: get_assertion::Options { rk: false, up: true, uv: true },
                    pin_auth: None,
                    pin_protocol: None,
                };
                match auth.get_assertion(req).await {
                    Ok(r) => Done::Asserted { cred: r.credential.map(|c| c.id.to_vec()).unwrap_or_default(), counter: u32::from_be_bytes(r.auth_data.to_vec()[33..37].try_into().unwrap()) },
                    Err(_) => Done::Declined,
                }
            }),
            Cer::AssertTwoIds { cred } => Box::pin(async move {
                let req = get_assertion::Request {
                    rp_id: RP.into(),
                    client_data_hash: vec![t as u8; 32].into(),
                    allow_list: Some(vec![cer::descriptor(&held_id(if single { 0 } else { cred })), cer::descriptor(&held_id(if single { 1 } else { 1 - cred % 2 }))]),
                    extensions: None,
                    options: get_assertion::Options { rk: false, up: true, uv: true },
                    pin_auth: None,
                    pin_protocol: None,
                };
                match auth.get_assertion(req).await {
                    Ok(r) => Done::Asserted { cred: r.credential.map(|c| c.id.to_vec()).unwrap_or_default(), counter: u32::from_be_bytes(r.auth_data.to_vec()[33..37].try_into().unwrap()) },
                    Err(e) => Done::Failed(e.into()),
                }
            }),
            Cer::AssertSilent { cred } => Box::pin(async move {
                let req = get_assertion::Request {
                    rp_id: RP.into(),
                    client_data_hash: vec![t as u8; 32].into(),
                    allow_list: Some(vec![cer::descriptor(&held_id(if single { 0 } else { cred }))]),
                    extensions: None,
                    options: get_assertion::Options { rk: false, up: false, uv: true },
                    pin_auth: None,
                    pin_protocol: None,
                };
                match auth.get_assertion(req).await {
                    Ok(r) => Done::Asserted { cred: r.credential.map(|c| c.id.to_vec()).unwrap_or_default(), counter: u32::from_be_bytes(r.auth_data.to_vec()[33..37].try_into().unwrap()) },
                    Err(e) => Done::Failed(e.into()),
                }
            }),
            Cer::AssertRefused { cred } => Box::pin(async move {
                use passkey_types::ctap2::extensions::{AuthenticatorPrfInputs, AuthenticatorPrfValues};
                let req = get_assertion::Request {
                    rp_id: RP.into(),
                    client_data_hash: vec![t as u8; 32].into(),
                    allow_list: Some(vec![cer::descriptor(&held_id(if single { 0 } else { cred }))]),
                    extensions: Some(get_assertion::ExtensionInputs { hmac_secret: None, prf: Some(AuthenticatorPrfInputs { eval: Some(AuthenticatorPrfValues { first: [9u8; 32], second: None }), eval_by_credential: None }) }),
                    options: get_assertion::Options { rk: false, up: true, uv: true },
                    pin_auth: None,
                    pin_protocol: None,
                };
                match auth.get_assertion(req).await {
                    Ok(r) => Done::Asserted { cred: r.credential.map(|c| c.id.to_vec()).unwrap_or_default(), counter: u32::from_be_bytes(r.auth_data.to_vec()[33..37].try_into().unwrap()) },
                    Err(_) => Done::Refused,
                }
            }),
            Cer::RegisterExcluded => Box::pin(async move {
                let req = make_credential::Request {
                    client_data_hash: vec![t as u8; 32].into(),
                    rp: make_credential::PublicKeyCredentialRpEntity { id: RP.into(), name: None },
                    user: passkey_types::webauthn::PublicKeyCredentialUserEntity { id: b"c19-user-x".to_vec().into(), display_name: "d".into(), name: "n".into() },
                    pub_key_cred_params: cer::params(&[-7]),
                    exclude_list: Some(vec![cer::descriptor(&held_id(0))]),
                    extensions: None,
                    options: make_credential::Options { rk: false, up: true, uv: true },
                    pin_auth: None,
                    pin_protocol: None,
                };
                match auth.make_credential(req).await.map_err(u8::from) {
                    Ok(r) => Done::Registered { cred: r.auth_data.attested_credential_data.as_ref().map(|a| a.credential_id().to_vec()).unwrap_or_default() },
                    Err(0x19) => Done::Excluded,
                    Err(e) => Done::Failed(e),
                }
            }),
            Cer::Register { user } => Box::pin(async move {
                let req = make_credential::Request {
                    client_data_hash: vec![t as u8; 32].into(),
                    rp: make_credential::PublicKeyCredentialRpEntity { id: RP.into(), name: None },
                    user: passkey_types::webauthn::PublicKeyCredentialUserEntity { id: format!("c19-user-{}", user % 2).into_bytes().into(), display_name: "d".into(), name: "n".into() },
                    pub_key_cred_params: cer::params(&[-7]),
                    exclude_list: None,
                    extensions: None,
                    options: make_credential::Options { rk: false, up: true, uv: true },
                    pin_auth: None,
                    pin_protocol: None,
                };
                match auth.make_credential(req).await {
                    Ok(r) => Done::Registered { cred: r.auth_data.attested_credential_data.as_ref().map(|a| a.credential_id().to_vec()).unwrap_or_default() },
                    Err(e) => Done::Failed(e.into()),
                }
            }),
        };
        tasks.push(Task::new(fut));
    }
    tasks
}

fn initial_store(cfg: &Config) -> YieldStore {
    let mut m = MemoryStore::new();
    // only the first held credential when assertions go without allow list (deterministic selection)
    let no_allow = cfg.cers.iter().any(|c| matches!(c, Cer::Assert { allow: false, .. }));
    for k in 0..(if no_allow { 1u8 } else { 2 }) {
        let pk = make_passkey(60 + k as u64, RP, &held_id(k), Some(b"c19-user-held"), Some(cfg.counter), None);
        m.insert(pk.credential_id.to_vec(), pk);
    }
    YieldStore { inner: m, yields: cfg.store_yields, disc: cfg.disc, fail_update: cfg.fail_update.map(|(k, c)| (k as usize, c)), updates_seen: 0, writes: vec![], new_first: (cfg.store_yields + cfg.uv_yields.iter().sum::<usize>()) % 2 == 1 }
}

/// run one schedule: at step i poll the `prefix[i]`-th runnable task (0 beyond the prefix)
pub fn run_schedule(cfg: &Config, prefix: &[usize]) -> Result<RunOut, String> {
    let log = Arc::new(StdMutex::new(vec![]));
    enum Shared {
        M(Arc<tokio::sync::Mutex<YieldStore>>),
        R(Arc<tokio::sync::RwLock<YieldStore>>),
    }
    let shared = match cfg.lock {
        Lock::ArcMutex => Shared::M(Arc::new(tokio::sync::Mutex::new(initial_store(cfg)))),
        Lock::ArcRwLock => Shared::R(Arc::new(tokio::sync::RwLock::new(initial_store(cfg)))),
    };
    let mut tasks = match &shared {
        Shared::M(s) => make_tasks(cfg, s, &log),
        Shared::R(s) => make_tasks(cfg, s, &log),
    };
    let mut choices = vec![];
    let mut branching = vec![];
    let mut last: Option<usize> = None;
    let mut switches = 0;
    let mut deadlock = false;
    let mut step = 0usize;
    loop {
        if tasks.iter().all(|t| t.is_done()) {
            break;
        }
        let runnable: Vec<usize> = (0..tasks.len()).filter(|i| tasks[*i].is_runnable()).collect();
        if runnable.is_empty() {
            deadlock = true;
            break;
        }
        let c = prefix.get(step).copied().unwrap_or(0).min(runnable.len() - 1);
        let t = runnable[c];
        choices.push(c);
        branching.push(runnable.len());
        if let Some(l) = last {
            if l != t && !tasks[l].is_done() {
                switches += 1;
            }
        }
        last = Some(t);
        std::panic::catch_unwind(std::panic::AssertUnwindSafe(|| tasks[t].poll())).map_err(|_| format!("ceremony panicked: {}", crate::last_panic()))?;
        step += 1;
        if step > 5_000 {
            return Err("schedule did not finish within 5000 polls".into());
        }
    }
    let results: Vec<Option<Done>> = tasks.iter_mut().map(|t| t.output.take()).collect();
    drop(tasks);
    let writes = if deadlock {
        vec![]
    } else {
        match &shared {
            Shared::M(s) => s.try_lock().map_err(|_| "lock still held after all ceremonies finished")?.writes.clone(),
            Shared::R(s) => s.try_read().map_err(|_| "lock still held after all ceremonies finished")?.writes.clone(),
        }
    };
    let final_store: Vec<(Vec<u8>, Option<u32>)> = if deadlock {
        vec![]
    } else {
        let read = |m: &MemoryStore| {
            let mut v: Vec<(Vec<u8>, Option<u32>)> = m.values().map(|p| (p.credential_id.to_vec(), p.counter)).collect();
            v.sort();
            v
        };
        match &shared {
            Shared::M(s) => read(&s.try_lock().map_err(|_| "lock still held after all ceremonies finished")?.inner),
            Shared::R(s) => read(&s.try_read().map_err(|_| "lock still held after all ceremonies finished")?.inner),
        }
    };
    let events = log.lock().unwrap().clone();
    Ok(RunOut { results, deadlock, events, final_store, writes, choices, branching, switches })
}

/// the window [find begin, update end] of an assertion task in the event log
fn window(events: &[Ev], tag: usize) -> Option<(usize, usize)> {
    let a = events.iter().position(|e| e.tag == tag && e.kind == "find" && e.begin)?;
    let b = events.iter().rposition(|e| e.tag == tag && e.kind == "update" && !e.begin)?;
    Some((a, b))
}

#[derive(Debug, PartialEq)]
pub enum Verdict {
    Ok,
    Known,
}

pub fn judge(cfg: &Config, out: &RunOut) -> Result<Verdict, String> {
    if out.deadlock {
        let stuck: Vec<usize> = out.results.iter().enumerate().filter(|(_, r)| r.is_none()).map(|(i, _)| i).collect();
        return Err(format!("deadlock: no ceremony is runnable but ceremonies {stuck:?} have not finished (schedule {:?})", out.choices));
    }
    // registrations that name a held credential in their exclude list must be refused in every schedule
    for (t, c) in cfg.cers.iter().enumerate() {
        if matches!(c, Cer::RegisterExcluded) {
            if let Some(Done::Registered { .. }) = out.results.get(t).and_then(|r| r.as_ref()) {
                return Err(format!("registration #{t} names a held credential of the RP in its exclude list but succeeded"));
            }
        }
    }
    // registrations
    for (t, r) in out.results.iter().enumerate() {
        if let Some(Done::Registered { cred }) = r {
            if !out.final_store.iter().any(|(id, _)| id == cred) {
                return Err(format!("the credential of successful registration #{t} is not in the store afterwards (store holds {} credentials)", out.final_store.len()));
            }
        }
    }
    // what the shared store ends up holding for a held credential is its start value or a value that some ceremony asked
    // the store to hold (the lock wrappers pass counter updates on; whether they pass on every single one is their business),
    // and an answered assertion reports the value it asked the store to hold -- together these carry "the largest reported
    // value is the stored one" through every schedule, overlapping or not
    {
        let asked: Vec<(Vec<u8>, Option<u32>)> = out.events.iter().filter(|e| e.kind == "update" && e.begin).map(|e| (e.cred.clone().unwrap_or_default(), e.counter)).collect();
        if !out.deadlock {
            for k in 0..2u8 {
                let id = held_id(k);
                if let Some((_, Some(stored))) = out.final_store.iter().find(|(i, _)| i == &id) {
                    if *stored != cfg.counter && !asked.iter().any(|(i, c)| i == &id && *c == Some(*stored)) {
                        let show: Vec<String> = asked.iter().filter(|(i, _)| i == &id).map(|(_, c)| format!("{c:?}")).collect();
                        let reached: Vec<String> = out.writes.iter().filter(|(i, _)| i == &id).map(|(_, c)| format!("{c:?}")).collect();
                        return Err(format!("the shared store ends up holding counter {stored} for a credential that started at {} although no ceremony asked it to hold that value (asked: [{}], reached the store behind the lock wrapper: [{}]; schedule {:?})", cfg.counter, show.join(", "), reached.join(", "), out.choices));
                    }
                }
            }
        }
        for (t, c) in cfg.cers.iter().enumerate() {
            if matches!(c, Cer::AssertDeclined { .. }) && matches!(out.results.get(t), Some(Some(Done::Declined))) && out.events.iter().any(|e| e.tag == t && e.kind == "update") {
                return Err(format!("ceremony #{t}: the user declined and the assertion failed, yet it wrote to the shared store"));
            }
        }
        for (t, r) in out.results.iter().enumerate() {
            if let Some(Done::Asserted { counter, .. }) = r {
                let mine: Vec<Option<u32>> = out.events.iter().filter(|e| e.tag == t && e.kind == "update" && e.begin).map(|e| e.counter).collect();
                if !mine.is_empty() && mine != vec![Some(*counter)] {
                    return Err(format!("assertion #{t} reports counter {counter} but asked the store to hold {mine:?}"));
                }
            }
        }
    }
    // assertions per credential
    let mut verdict = Verdict::Ok;
    for k in 0..2u8 {
        let id = held_id(k);
        let asserts: Vec<(usize, u32)> = out.results.iter().enumerate().filter_map(|(t, r)| if let Some(Done::Asserted { cred, counter }) = r { (cred == &id).then_some((t, *counter)) } else { None }).collect();
        if asserts.is_empty() {
            continue;
        }
        let stored = out.final_store.iter().find(|(i, _)| i == &id).and_then(|(_, c)| *c);
        // whatever the schedule: every write is a previously stored value plus one, so once an assertion was answered
        // the stored counter is above its start value (a lost update under the known finding cannot undo that)
        if stored.map_or(true, |s| s <= cfg.counter) {
            return Err(format!("an assertion reported counter {} but the store holds {stored:?}, not above the start value {}", asserts[0].1, cfg.counter));
        }
        // refused assertions on the same credential (they may advance the counter by one each)
        let single = cfg.cers.iter().any(|c| matches!(c, Cer::Assert { allow: false, .. }));
        let refused: Vec<usize> = cfg.cers.iter().enumerate().filter(|(_, c)| matches!(c, Cer::AssertRefused { cred } if held_id(if single { 0 } else { *cred }) == id)).map(|(t, _)| t).collect();
        if !refused.is_empty() {
            let mut dup = false;
            for i in 0..asserts.len() {
                for j in i + 1..asserts.len() {
                    if asserts[i].1 == asserts[j].1 {
                        dup = true;
                    }
                }
            }
            let max = asserts.iter().map(|a| a.1).max().unwrap();
            let all_windows: Vec<(usize, usize)> = asserts.iter().map(|a| a.0).chain(refused.iter().copied()).filter_map(|t| window(&out.events, t)).collect();
            let any_overlap = (0..all_windows.len()).any(|i| (i + 1..all_windows.len()).any(|j| all_windows[i].0 < all_windows[j].1 && all_windows[j].0 < all_windows[i].1));
            let s = stored.unwrap();
            if s < max || s as u64 > cfg.counter as u64 + (asserts.len() + refused.len()) as u64 {
                if any_overlap && s < max {
                    verdict = Verdict::Known;
                } else {
                    return Err(format!("largest reported counter is {max}, the store holds {s} after {} answered and {} refused assertions from start value {} (no overlapping lookup..update windows: {})", asserts.len(), refused.len(), cfg.counter, !any_overlap));
                }
            }
            if dup && !any_overlap {
                return Err("assertions on the same credential report the same counter although no lookup..update windows overlap".into());
            }
            if dup {
                verdict = Verdict::Known;
            }
            continue;
        }
        let windows: Vec<Option<(usize, usize)>> = asserts.iter().map(|(t, _)| window(&out.events, *t)).collect();
        let overlap = |i: usize, j: usize| match (windows[i], windows[j]) {
            (Some(a), Some(b)) => a.0 < b.1 && b.0 < a.1,
            _ => false,
        };
        let any_overlap = (0..asserts.len()).any(|i| (i + 1..asserts.len()).any(|j| overlap(i, j)));
        for i in 0..asserts.len() {
            for j in i + 1..asserts.len() {
                if asserts[i].1 == asserts[j].1 {
                    if overlap(i, j) {
                        verdict = Verdict::Known;
                    } else {
                        return Err(format!("assertions #{} and #{} on the same credential both report counter {} although their lookup..update windows do not overlap", asserts[i].0, asserts[j].0, asserts[i].1));
                    }
                }
            }
        }
        let max = asserts.iter().map(|a| a.1).max().unwrap();
        if stored != Some(max) {
            if any_overlap {
                verdict = Verdict::Known;
            } else {
                return Err(format!("largest reported counter is {max} but the store holds {stored:?} (no overlapping assertions)"));
            }
        }
        // sequential assertions must also advance from the start value
        if !any_overlap {
            let mut cs: Vec<u32> = asserts.iter().map(|a| a.1).collect();
            cs.sort();
            let want: Vec<u32> = (1..=cs.len() as u32).map(|d| cfg.counter + d).collect();
            if cs != want {
                return Err(format!("sequential assertions report counters {cs:?}, expected {want:?}"));
            }
        }
    }
    let mut tolerated_failure = false;
    for (t, r) in out.results.iter().enumerate() {
        if let (Some(Done::Asserted { .. }), Some(Cer::AssertRefused { .. })) = (r, cfg.cers.get(t)) {
            // not a violation of this property; counted so that the generator's intent can be checked
            continue;
        }
        if let Some(Done::Failed(code)) = r {
            // when one counter update is refused by the store, the assertion that issued it has to fail (once)
            let is_assert = matches!(cfg.cers.get(t), Some(Cer::Assert { .. } | Cer::AssertSilent { .. } | Cer::AssertTwoIds { .. }));
            if cfg.fail_update.is_some() && is_assert && !tolerated_failure {
                tolerated_failure = true;
                continue;
            }
            return Err(format!("ceremony #{t} failed with status 0x{code:02X} although every request is satisfiable"));
        }
    }
    Ok(verdict)
}

fn record(ctx: &mut Ctx, cfg: &Config, out: &RunOut, v: &Verdict) {
    ctx.eval();
    if out.switches >= 1 {
        ctx.nontrivial(&(cfg, &out.choices));
    }
    if out.results.iter().any(|r| matches!(r, Some(Done::Refused))) {
        ctx.class("schedule/with a refused assertion");
    }
    if out.results.iter().zip(cfg.cers.iter()).any(|(r, c)| matches!((r, c), (Some(Done::Asserted { .. }), Cer::AssertRefused { .. }))) {
        ctx.class("schedule/an assertion meant to be refused was answered");
    }
    let overlapping = matches!(v, Verdict::Known);
    ctx.class(if overlapping { "schedule/known-overlap-lost-update" } else if out.switches == 0 { "schedule/sequential" } else { "schedule/interleaved" });
}

/// enumerate every schedule of a configuration (DFS by prefix replay)
pub fn explore(ctx: &mut Ctx, cfg: &Config, max_schedules: u64) -> Result<(u64, bool), String> {
    let mut prefix: Vec<usize> = vec![];
    let mut n = 0u64;
    loop {
        let out = run_schedule(cfg, &prefix)?;
        let v = judge(cfg, &out).map_err(|e| format!("{e} schedule={}", serde_json::to_string(&out.choices).unwrap()))?;
        record(ctx, cfg, &out, &v);
        if v == Verdict::Known {
            if ctx.is_known(SIG_D13) {
                ctx.known_hit(SIG_D13);
            } else {
                return Err(format!("two overlapping assertions on one credential reuse a counter / lose an update schedule={}", serde_json::to_string(&out.choices).unwrap()));
            }
        }
        n += 1;
        if n <= 2 {
            ctx.sample(&format!("{:?}/{}", cfg.lock, cfg.cers.len()), || json!({"config": cfg, "schedule": out.choices, "results": format!("{:?}", out.results)}));
        }
        // next schedule
        let mut i = out.choices.len();
        let mut next = None;
        while i > 0 {
            i -= 1;
            if out.choices[i] + 1 < out.branching[i] {
                let mut p = out.choices[..i].to_vec();
                p.push(out.choices[i] + 1);
                next = Some(p);
                break;
            }
        }
        match next {
            Some(p) => prefix = p,
            None => return Ok((n, true)),
        }
        if n >= max_schedules {
            return Ok((n, false));
        }
    }
}

fn check_generated(ctx: &mut Ctx, case: &(Config, Vec<u8>)) -> Result<(), String> {
    let (cfg, raw) = case;
    // map raw choices onto the runnable set at each step (monotone)
    let prefix: Vec<usize> = raw.iter().map(|b| *b as usize).collect();
    let out = run_schedule(cfg, &prefix)?;
    let v = judge(cfg, &out)?;
    record(ctx, cfg, &out, &v);
    if v == Verdict::Known {
        if ctx.is_known(SIG_D13) {
            ctx.known_hit(SIG_D13);
        } else {
            return Err("two overlapping assertions on one credential reuse a counter / lose an update".into());
        }
    }
    Ok(())
}

fn config(max_tasks: usize) -> impl Strategy<Value = Config> {
    let cer = prop_oneof![6 => (0u8..2, proptest::bool::weighted(0.8)).prop_map(|(cred, allow)| Cer::Assert { cred, allow }), 4 => (0u8..2).prop_map(|user| Cer::Register { user }), 1 => Just(Cer::RegisterExcluded), 2 => (0u8..2).prop_map(|cred| Cer::AssertRefused { cred }), 2 => (0u8..2).prop_map(|cred| Cer::AssertSilent { cred }), 2 => (0u8..2).prop_map(|cred| Cer::AssertDeclined { cred }), 2 => (0u8..2).prop_map(|cred| Cer::AssertTwoIds { cred })];
    (prop_oneof![Just(Lock::ArcMutex), Just(Lock::ArcRwLock)], 0usize..3, proptest::collection::vec(0usize..4, 3), proptest::collection::vec(cer, 2..=max_tasks), prop_oneof![Just(5u32), Just(0), Just(1_000_000), Just((1u32 << 31) - 2), Just((1u32 << 31) - 1), Just(3_000_000_000), Just(u32::MAX - 3), Just(u32::MAX - 2)]).prop_map(|(lock, store_yields, uv_yields, mut cers, counter)| {
        // from 2^32-3 only two ceremonies (a third assertion would repeat the maximum, which is C08's subject)
        if counter == u32::MAX - 2 {
            cers.truncate(2);
        }
        Config { lock, store_yields, disc: (uv_yields.iter().sum::<usize>() % 3) as u8, fail_update: (uv_yields[0] == 3).then_some(((uv_yields[1] % 3) as u8, [0x28u8, 0x7F, 0x01][uv_yields[2] % 3])), uv_yields, cers, counter }
    })
}

pub fn run(ctx: &mut Ctx) {
    let fs = ctx.first_shard();
    ctx.rule = "2-3 authenticators share one Arc<Mutex<store>> / Arc<RwLock<store>> (inner store = MemoryStore behind a wrapper that suspends 0-2 times inside every call, so guards are held across suspensions; its update only rewrites a record it finds, and it can refuse the n-th counter update with a status byte: the assertion that issued it must then fail); user validation suspends 0-3 times; ceremony sets {assert/assert same credential, assert/assert different credentials, assert/register, register/register same and different user, an assertion the authenticator refuses after the user prompt next to a successful one on the same credential, silent assertions (up = false), start counters up to 2^32-4, three-way mixes}. A schedule is the sequence of 'poll the k-th runnable ceremony' decisions; ALL schedules are enumerated for the fixed small configurations (DFS with prefix replay), larger ones get proptest-generated schedules. Since rounds 7/8: declined assertions, allow lists naming both held credentials, start counter 2^32-3; in every schedule the counters handed to the shared store equal those reaching the store behind the wrapper, and an answered assertion reports the value it asked the store to hold. Non-trivial = schedule with at least one context switch between two unfinished ceremonies; distinct by (configuration, schedule).".into();
    ctx.assumptions = vec![
        "the harness owns every suspension point (user validation and store calls suspend only through harness doubles), so a ceremony is deterministic given the poll order".into(),
        "deadlock = no ceremony woken while ceremonies are unfinished".into(),
        "known finding D13: when the lookup..update windows of two assertions on the same credential overlap, equal counters / a lost update are counted, not failed; the same symptoms without overlap, any deadlock, any lost credential or failed ceremony are violations".into(),
    ];
    // ---- exhaustive part
    let mut exhaustive_cfgs: Vec<Config> = vec![];
    let pairs: Vec<Vec<Cer>> = vec![
        vec![Cer::Assert { cred: 0, allow: true }, Cer::Assert { cred: 0, allow: true }],
        vec![Cer::Assert { cred: 0, allow: true }, Cer::Assert { cred: 1, allow: true }],
        vec![Cer::Assert { cred: 0, allow: false }, Cer::Register { user: 0 }],
        vec![Cer::Assert { cred: 0, allow: true }, Cer::Register { user: 0 }],
        vec![Cer::Register { user: 0 }, Cer::Register { user: 0 }],
        vec![Cer::Register { user: 0 }, Cer::Register { user: 1 }],
        vec![Cer::Assert { cred: 0, allow: false }, Cer::Assert { cred: 0, allow: true }],
        vec![Cer::RegisterExcluded, Cer::Register { user: 0 }],
        vec![Cer::RegisterExcluded, Cer::Assert { cred: 0, allow: true }],
        vec![Cer::AssertRefused { cred: 0 }, Cer::Assert { cred: 0, allow: true }],
        vec![Cer::AssertSilent { cred: 0 }, Cer::Assert { cred: 0, allow: true }],
        vec![Cer::AssertSilent { cred: 0 }, Cer::AssertSilent { cred: 0 }],
        vec![Cer::AssertDeclined { cred: 0 }, Cer::Assert { cred: 0, allow: true }],
        vec![Cer::AssertDeclined { cred: 0 }, Cer::AssertDeclined { cred: 0 }],
        vec![Cer::AssertTwoIds { cred: 0 }, Cer::Assert { cred: 0, allow: true }],
        vec![Cer::AssertTwoIds { cred: 0 }, Cer::AssertTwoIds { cred: 1 }],
        vec![Cer::AssertTwoIds { cred: 1 }, Cer::Register { user: 0 }],
    ];
    // a store that refuses the first / second counter update that reaches it, and registrations through both wrappers on a
    // store whose update only rewrites existing records
    for lock in [Lock::ArcMutex, Lock::ArcRwLock] {
        for cers in [vec![Cer::Assert { cred: 0, allow: true }, Cer::Assert { cred: 0, allow: true }], vec![Cer::Assert { cred: 0, allow: true }, Cer::Assert { cred: 1, allow: true }], vec![Cer::Assert { cred: 0, allow: true }, Cer::Register { user: 0 }]] {
            for k in 0..2u8 {
                for sy in 0..=1usize {
                    for uy in 0..=1usize {
                        exhaustive_cfgs.push(Config { lock, store_yields: sy, uv_yields: vec![uy, 1 - uy, 0], cers: cers.clone(), counter: 5, disc: 0, fail_update: Some((k, 0x28)) });
                    }
                }
            }
        }
    }
    // start counters in the upper half of the range (sequential and interleaved assertion pairs)
    for lock in [Lock::ArcMutex, Lock::ArcRwLock] {
        // (two assertions from 2^32-3 end at the maximum itself; from there on values repeat, which C08 covers)
        for counter in [(1u32 << 31) - 2, (1u32 << 31) - 1, 3_000_000_000, u32::MAX - 3, u32::MAX - 2] {
            for uy in 0..=1usize {
                exhaustive_cfgs.push(Config { lock, store_yields: 0, uv_yields: vec![uy, 0, 0], cers: vec![Cer::Assert { cred: 0, allow: true }, Cer::Assert { cred: 0, allow: true }], counter, disc: 0, fail_update: None });
            }
        }
    }
    let max_uy = ctx.tier.pick(2usize, 4usize);
    for lock in [Lock::ArcMutex, Lock::ArcRwLock] {
        for cers in &pairs {
            for sy in 0..=2usize {
                for uy0 in 0..=max_uy {
                    for uy1 in 0..=max_uy {
                        exhaustive_cfgs.push(Config { lock, store_yields: sy, uv_yields: vec![uy0, uy1, 0], cers: cers.clone(), counter: 5, disc: 0, fail_update: None });
                        if uy0 + uy1 <= 1 && cers.iter().any(|c| matches!(c, Cer::Register { .. } | Cer::RegisterExcluded)) {
                            for disc in [1u8, 2] {
                                exhaustive_cfgs.push(Config { lock, store_yields: sy, uv_yields: vec![uy0, uy1, 0], cers: cers.clone(), counter: if disc == 1 { 0 } else { 5 }, disc, fail_update: None });
                            }
                        }
                    }
                }
            }
        }
        // three-way mixes with few suspensions
        for cers in [
            vec![Cer::Assert { cred: 0, allow: true }, Cer::Assert { cred: 0, allow: true }, Cer::Register { user: 0 }],
            vec![Cer::Assert { cred: 0, allow: true }, Cer::Register { user: 0 }, Cer::Register { user: 0 }],
            vec![Cer::Assert { cred: 0, allow: false }, Cer::Assert { cred: 0, allow: true }, Cer::Assert { cred: 0, allow: true }],
            vec![Cer::Register { user: 0 }, Cer::Register { user: 1 }, Cer::Register { user: 0 }],
        ] {
            for (sy, uvs) in [(0usize, vec![1usize, 0, 0]), (0, vec![1, 1, 1]), (1, vec![0, 0, 0])] {
                exhaustive_cfgs.push(Config { lock, store_yields: sy, uv_yields: uvs, cers: cers.clone(), counter: 5, disc: 0, fail_update: None });
            }
            if ctx.tier == crate::core::Tier::Thorough {
                for (sy, uvs) in [(1usize, vec![1usize, 1, 0]), (1, vec![1, 1, 1]), (2, vec![0, 0, 0]), (0, vec![2, 2, 1])] {
                    exhaustive_cfgs.push(Config { lock, store_yields: sy, uv_yields: uvs, cers: cers.clone(), counter: 5, disc: 0, fail_update: None });
                }
            }
        }
    }
    let cap = ctx.tier.pick(30_000u64, 2_000_000u64);
    let mut all_complete = true;
    let mut per_cfg = vec![];
    // configurations are independent: enumerate them on several threads, each with its own counters
    let mut todo: Vec<&Config> = exhaustive_cfgs.iter().filter(|_| fs).collect();
    // largest configurations first, handed out through a shared counter (work queue)
    todo.sort_by_key(|c| std::cmp::Reverse(c.cers.len() * 100 + c.store_yields * 10 * c.cers.len() + c.uv_yields.iter().sum::<usize>() * 5));
    let next = std::sync::atomic::AtomicUsize::new(0);
    let threads = std::thread::available_parallelism().map(|n| n.get()).unwrap_or(4).clamp(1, 12);
    let (id, tier, seed, strict) = (ctx.id, ctx.tier, ctx.seed, ctx.strict);
    let results: Vec<(Ctx, Vec<Value>, bool, Option<(Config, String)>)> = std::thread::scope(|sc| {
        let handles: Vec<_> = (0..threads)
            .map(|_t| {
                let (todo, next) = (&todo, &next);
                std::thread::Builder::new()
                    .stack_size(8 << 20)
                    .spawn_scoped(sc, move || {
                        let mut local = Ctx::new(id, tier, seed);
                        local.strict = strict;
                        let mut rows = vec![];
                        let mut complete = true;
                        let mut failure = None;
                        loop {
                            let i = next.fetch_add(1, std::sync::atomic::Ordering::SeqCst);
                            let Some(cfg) = todo.get(i).copied() else { break };
                            let cap = if cfg.cers.len() > 2 { cap / 10 } else { cap };
                            match explore(&mut local, cfg, cap) {
                                Ok((n, c)) => {
                                    complete &= c;
                                    rows.push(json!({"lock": format!("{:?}", cfg.lock), "ceremonies": format!("{:?}", cfg.cers), "store_yields": cfg.store_yields, "uv_yields": cfg.uv_yields, "schedules": n, "exhaustive": c}));
                                }
                                Err(e) => {
                                    failure = Some((cfg.clone(), e));
                                    break;
                                }
                            }
                        }
                        (local, rows, complete, failure)
                    })
                    .expect("spawn")
            })
            .collect();
        handles.into_iter().map(|h| h.join().expect("explorer thread")).collect()
    });
    for (local, rows, complete, failure) in results {
        ctx.absorb(local);
        per_cfg.extend(rows);
        all_complete &= complete;
        if let Some((cfg, e)) = failure {
            let (msg, sched) = match e.split_once(" schedule=") {
                Some((m, s)) => (m.to_string(), serde_json::from_str::<Vec<u8>>(s).unwrap_or_default()),
                None => (e.clone(), vec![]),
            };
            ctx.violation("exhaustive", json!((cfg, sched)), &msg);
        }
    }
    ctx.note("exhaustive_configurations", json!(per_cfg));
    ctx.exhaustive = Some(false);
    ctx.note("all_fixed_configurations_enumerated_completely", json!(all_complete));
    // ---- generated part
    let n = ctx.tier.pick(2_500u32, 2_000_000u32);
    let strat = (config(3), proptest::collection::vec(0u8..3, 0..60));
    match search(ctx, 19, n, strat, check_generated) {
        Search::Pass => {}
        Search::Fail(c, msg) => ctx.violation("generated", json!(c), &msg),
    }
}

pub fn replay(ctx: &mut Ctx, _stage: &str, case: &Value) -> Result<(), String> {
    let c: (Config, Vec<u8>) = serde_json::from_value(case.clone()).map_err(|e| format!("bad case: {e}"))?;
    check_generated(ctx, &c)
}
