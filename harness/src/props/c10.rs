//! C10 — public-suffix lookups agree with the shipped list under the PSL algorithm.

use std::panic::{catch_unwind, AssertUnwindSafe};

use proptest::prelude::*;
use public_suffix::{EffectiveTLDProvider, DEFAULT_PROVIDER};
use serde_json::{json, Value};

use crate::core::{idx, search, Ctx, Search};
use crate::model::psl::{is_label_suffix, Prevailing, Psl, RuleKind};

fn prevailing_name(p: Prevailing) -> &'static str {
    match p {
        Prevailing::Implicit => "implicit*",
        Prevailing::Normal => "normal",
        Prevailing::Wildcard => "wildcard",
        Prevailing::Exception => "exception",
    }
}

/// the provider interface as a generic caller (the client's RP-ID verifier) and as a trait object reach it
fn via_generic<P: public_suffix::EffectiveTLDProvider>(p: &P, d: &str) -> Result<String, String> {
    p.effective_tld_plus_one(d).map(|s| s.to_string()).map_err(|e| format!("{e:?}"))
}
fn via_dyn(p: &dyn public_suffix::EffectiveTLDProvider, d: &str) -> Result<String, String> {
    p.effective_tld_plus_one(d).map(|s| s.to_string()).map_err(|e| format!("{e:?}"))
}

/// every way of calling the lookup gives the same answer (method syntax on the provider, a generic caller, a trait object)
fn same_through_the_trait(d: &str, direct: &Result<String, public_suffix::Error>) -> Result<(), String> {
    let direct = direct.as_ref().map(|s| s.clone()).map_err(|e| format!("{e:?}"));
    let g = catch_unwind(AssertUnwindSafe(|| (via_generic(&DEFAULT_PROVIDER, d), via_dyn(&DEFAULT_PROVIDER, d)))).map_err(|_| format!("lookup through the provider trait panicked for {:?}", trunc(d)))?;
    if g.0 != direct || g.1 != direct {
        return Err(format!("effective_tld_plus_one({:?}) = {:?} by method call, {:?} from a generic caller, {:?} through a trait object", trunc(d), direct, g.0, g.1));
    }
    Ok(())
}

/// Agreement check on a canonical (lower-case ASCII / A-label, no empty label) name.
pub fn check_canonical(psl: &Psl, d: &str) -> Result<Prevailing, String> {
    let (want_suffix, prev) = psl.public_suffix(d);
    let want_e1 = psl.etld_plus_one(d);
    let got = catch_unwind(AssertUnwindSafe(|| {
        (
            DEFAULT_PROVIDER.public_suffix(d).to_string(),
            DEFAULT_PROVIDER.effective_tld_plus_one(d).map(|s| s.to_string()),
            DEFAULT_PROVIDER.is_effective_tld(d),
        )
    }))
    .map_err(|_| format!("lookup panicked for {d:?}"))?;
    same_through_the_trait(d, &got.1)?;
    if got.0 != want_suffix {
        return Err(format!("public_suffix({d:?}) = {:?}, PSL algorithm over the .dat gives {:?} (prevailing rule kind: {})", got.0, want_suffix, prevailing_name(prev)));
    }
    match (&got.1, want_e1) {
        (Ok(g), Some(w)) if g == w => {}
        (Err(_), None) => {}
        (g, w) => return Err(format!("effective_tld_plus_one({d:?}) = {g:?}, PSL algorithm over the .dat gives {w:?}")),
    }
    if got.2 != (want_suffix == d) {
        return Err(format!("is_effective_tld({d:?}) = {}, but the suffix is {:?}", got.2, want_suffix));
    }
    Ok(prev)
}

/// Structural checks on an arbitrary string.
pub fn check_structural(s: &str) -> Result<(), String> {
    let r = catch_unwind(AssertUnwindSafe(|| {
        (
            DEFAULT_PROVIDER.public_suffix(s).to_string(),
            DEFAULT_PROVIDER.effective_tld_plus_one(s).map(|x| x.to_string()),
            DEFAULT_PROVIDER.is_effective_tld(s),
        )
    }))
    .map_err(|_| format!("lookup panicked for {:?}", trunc(s)))?;
    let (suffix, e1, is_tld) = r;
    same_through_the_trait(s, &e1)?;
    if !is_label_suffix(s, &suffix) {
        return Err(format!("public_suffix({:?}) = {:?} is not a suffix cut at a label boundary", trunc(s), trunc(&suffix)));
    }
    let has_empty_label = s.is_empty() || s.split('.').any(|l| l.is_empty());
    if has_empty_label {
        if e1.is_ok() {
            return Err(format!("effective_tld_plus_one({:?}) accepted a name with an empty label: {:?}", trunc(s), e1));
        }
        if !s.is_empty() && is_tld {
            return Err(format!("is_effective_tld({:?}) is true for a name with an empty label", trunc(s)));
        }
    }
    if let Ok(e) = &e1 {
        if !is_label_suffix(s, e) {
            return Err(format!("effective_tld_plus_one({:?}) = {:?} is not a suffix cut at a label boundary", trunc(s), trunc(e)));
        }
        let ls = suffix.split('.').count();
        let le = e.split('.').count();
        if le != ls + 1 {
            return Err(format!("effective_tld_plus_one({:?}) = {:?} has {le} labels, public suffix {:?} has {ls}", trunc(s), trunc(e), trunc(&suffix)));
        }
        if !is_label_suffix(e, &suffix) {
            return Err(format!("suffix {:?} is not a label suffix of eTLD+1 {:?}", trunc(&suffix), trunc(e)));
        }
    }
    if !has_empty_label && is_tld != (suffix == s) {
        return Err(format!("is_effective_tld({:?}) = {is_tld} but public_suffix = {:?}", trunc(s), trunc(&suffix)));
    }
    Ok(())
}

fn trunc(s: &str) -> String {
    if s.len() > 120 {
        let mut end = 120;
        while !s.is_char_boundary(end) {
            end -= 1;
        }
        format!("{}…(len {})", &s[..end], s.len())
    } else {
        s.to_string()
    }
}

const FRESH: [&str; 6] = ["zq0verif", "a", "xn--verif-test", "www", "q-1", "zz9"];

/// all variants of one rule: itself, +1..3 fresh labels, leading label removed / replaced
fn rule_variants(name: &str, kind: RuleKind, k: usize) -> Vec<String> {
    let f = |i: usize| FRESH[(k + i) % FRESH.len()];
    let base = match kind {
        RuleKind::Wildcard => format!("{}.{}", f(0), name),
        _ => name.to_string(),
    };
    let mut v = vec![base.clone()];
    if kind == RuleKind::Wildcard {
        v.push(name.to_string());
    }
    v.push(format!("{}.{}", f(1), base));
    v.push(format!("{}.{}.{}", f(2), f(1), base));
    v.push(format!("{}.{}.{}.{}", f(3), f(2), f(1), base));
    if let Some((_, rest)) = base.split_once('.') {
        v.push(rest.to_string());
        v.push(format!("{}.{}", f(4), rest));
        v.push(format!("{}.{}.{}", f(5), f(4), rest));
    } else {
        v.push(f(4).to_string());
    }
    // labels at the limits of a DNS label and beyond (63, 64, 200 bytes) in the position right of / at the rule's leftmost label
    for (i, n) in [63usize, 64, 200].into_iter().enumerate() {
        if (k + i) % 3 == 0 {
            let long = "l".repeat(n);
            v.push(format!("{long}.{name}"));
            v.push(format!("{}.{long}.{name}", f(1)));
        }
    }
    v
}

/// every node path of a compiled table as a dotted name ("co.uk"), read from the data the public `Table` trait exposes
fn table_paths<T: public_suffix::Table>(_: &public_suffix::ListProvider<T>) -> Vec<String> {
    let label = |i: usize| -> &'static str {
        let mut x = T::NODES[i];
        let length = (x & ((1 << T::NODES_BITS_TEXT_LENGTH) - 1)) as usize;
        x >>= T::NODES_BITS_TEXT_LENGTH;
        let offset = (x & ((1 << T::NODES_BITS_TEXT_OFFSET) - 1)) as usize;
        &T::TEXT[offset..][..length]
    };
    let children = |i: usize| -> (usize, usize) {
        let mut u = T::NODES[i] >> (T::NODES_BITS_TEXT_OFFSET + T::NODES_BITS_TEXT_LENGTH + T::NODES_BITS_ICANN);
        u = T::CHILDREN[(u & ((1 << T::NODES_BITS_CHILDREN) - 1)) as usize];
        let lo = u & ((1 << T::CHILDREN_BITS_LO) - 1);
        let hi = (u >> T::CHILDREN_BITS_LO) & ((1 << T::CHILDREN_BITS_HI) - 1);
        (lo as usize, hi as usize)
    };
    let mut out = vec![];
    let mut stack: Vec<(usize, String)> = (0..T::NUM_TLD as usize).map(|i| (i, label(i).to_string())).collect();
    while let Some((i, name)) = stack.pop() {
        let (lo, hi) = children(i);
        for c in lo..hi.min(T::NODES.len()) {
            if out.len() + stack.len() < 200_000 {
                stack.push((c, format!("{}.{name}", label(c))));
            }
        }
        out.push(name);
    }
    out.sort();
    out
}

pub fn run(ctx: &mut Ctx) {
    let fs = ctx.first_shard();
    ctx.rule = "sweep: every rule of public_suffix_list.dat (A-label form) as itself, with 1-3 labels prepended, with its leading label removed and replaced, with labels of 63 / 64 / 200 bytes below it, and with each of the list's most frequent labels (48 in the quick tier, all that occur twice in the thorough tier) placed directly below it; every node path of the compiled table (read through the public Table constants) as a name and with one more label; random: 1-8 labels from the list's label vocabulary and fresh labels, optionally on top of a list rule; structural: arbitrary strings (ASCII/Unicode/empty labels/long/mixed case). Since round 8 every lookup also from a generic caller and through a trait object. Non-trivial = canonical name whose prevailing rule is not the implicit '*'; distinct by name.".into();
    ctx.assumptions = vec![
        "agreement with the reference is asserted for every name without empty labels; the reference matches labels literally against the list's A-label rules (so upper-case or Unicode labels match no rule, exactly like in a byte-wise table lookup); strings with empty labels get the structural checks only".into(),
        "the reference converts Unicode rules of the .dat with the idna crate (UTS-46 to-ASCII)".into(),
        "is_effective_tld(\"\") is measured, not asserted".into(),
    ];
    let psl = match Psl::load() {
        Ok(p) => p,
        Err(e) => {
            eprintln!("cannot load list: {e}");
            std::process::exit(2);
        }
    };
    ctx.note("rules_in_dat", json!(psl.rules.len()));
    let kinds = psl.rules.iter().fold([0u64; 3], |mut a, r| {
        a[match r.kind {
            RuleKind::Normal => 0,
            RuleKind::Wildcard => 1,
            RuleKind::Exception => 2,
        }] += 1;
        a
    });
    ctx.note("rule_kinds", json!({"normal": kinds[0], "wildcard": kinds[1], "exception": kinds[2], "idn": psl.rules.iter().filter(|r| r.name.contains("xn--")).count()}));

    // ---- stage 1: complete rule sweep
    'sweep: for (k, r) in psl.rules.iter().enumerate().filter(|_| fs) {
        for d in rule_variants(&r.name, r.kind, k) {
            ctx.eval();
            match check_canonical(&psl, &d) {
                Ok(p) => {
                    ctx.class(&format!("sweep/{}", prevailing_name(p)));
                    if p != Prevailing::Implicit {
                        ctx.nontrivial(&d);
                    }
                    ctx.sample(&format!("sweep/{}", prevailing_name(p)), || {
                        json!({"name": d, "suffix": psl.public_suffix(&d).0, "etld1": psl.etld_plus_one(&d)})
                    });
                    if let Err(e) = check_structural(&d) {
                        ctx.violation("sweep", json!({"name": d}), &e);
                        break 'sweep;
                    }
                }
                Err(e) => {
                    ctx.violation("sweep", json!({"name": d}), &e);
                    break 'sweep;
                }
            }
        }
    }
    ctx.note("sweep_exhaustive_over_rules", json!(true));

    // ---- stage 1b: every rule with each of the list's most frequent labels put directly below it ("x.<label>.<rule>"):
    // a label that is not a child of that rule in the list must not be treated as one (the table stores the children
    // of different parents next to each other)
    {
        let mut freq: std::collections::HashMap<&str, usize> = std::collections::HashMap::new();
        for r in &psl.rules {
            for l in r.name.split('.') {
                *freq.entry(l).or_default() += 1;
            }
        }
        let mut labels: Vec<(&str, usize)> = freq.into_iter().filter(|(_, n)| *n >= 2).collect();
        labels.sort_by(|a, b| b.1.cmp(&a.1).then(a.0.cmp(b.0)));
        let top = ctx.tier.pick(48usize, 100_000usize).min(labels.len());
        ctx.note("frequent_labels_swept_below_every_rule", json!(top));
        let shards = std::env::var("VERIF_SHARDS").ok().and_then(|s| s.parse::<usize>().ok()).unwrap_or(1).max(1);
        let shard = std::env::var("VERIF_SHARD").ok().and_then(|s| s.parse::<usize>().ok()).unwrap_or(0);
        'below: for (k, r) in psl.rules.iter().enumerate() {
            if k % shards != shard {
                continue;
            }
            for (l, _) in labels.iter().take(top) {
                let d = format!("x.{l}.{}", r.name);
                ctx.eval();
                match check_canonical(&psl, &d) {
                    Ok(p) => {
                        ctx.class(&format!("below-rule/{}", prevailing_name(p)));
                        if p != Prevailing::Implicit {
                            ctx.nontrivial(&d);
                        }
                    }
                    Err(e) => {
                        ctx.violation("sweep-below", json!({"name": d}), &e);
                        break 'below;
                    }
                }
            }
        }
    }

    // ---- stage 1c: the other direction — every path of the compiled table (read through the public `Table` constants)
    // as a name, with and without a further label: a rule that only the table knows shows as a disagreement
    if fs {
        let paths = table_paths(&DEFAULT_PROVIDER);
        ctx.note("paths_in_compiled_table", json!(paths.len()));
        'table: for path in &paths {
            for d in [path.clone(), format!("x.{path}")] {
                ctx.eval();
                match check_canonical(&psl, &d) {
                    Ok(p) => {
                        ctx.class(&format!("table-walk/{}", prevailing_name(p)));
                    }
                    Err(e) => {
                        ctx.violation("sweep-table", json!({"name": d}), &format!("{e} [name taken from the compiled table]"));
                        break 'table;
                    }
                }
            }
        }
    }

    // ---- stage 2: random canonical names
    let mut vocab: Vec<String> = psl.rules.iter().flat_map(|r| r.name.split('.').map(|s| s.to_string()).collect::<Vec<_>>()).collect();
    vocab.sort();
    vocab.dedup();
    let rule_names: Vec<String> = psl.rules.iter().map(|r| r.name.clone()).collect();
    let nv = vocab.len();
    let nr = rule_names.len();
    let label = prop_oneof![
        3 => any::<u16>().prop_map(move |i| (0u8, i)),
        2 => any::<u16>().prop_map(|i| (1u8, i)),
    ];
    let strat = (proptest::collection::vec(label, 1..8), proptest::option::weighted(0.6, any::<u16>()));
    let vocab2 = vocab.clone();
    let build = move |v: &(Vec<(u8, u16)>, Option<u16>)| -> String {
        let mut parts: Vec<String> = v
            .0
            .iter()
            .map(|(t, i)| if *t == 0 { vocab2[idx(*i, nv)].clone() } else { format!("{}{}", ["f", "zq", "n0", "xn--x"][(*i % 4) as usize], i % 97) })
            .collect();
        if let Some(r) = v.1 {
            parts.push(rule_names[idx(r, nr)].clone());
        }
        parts.join(".")
    };
    let n_random = ctx.tier.pick(200_000u32, 60_000_000u32);
    let psl_ref = &psl;
    let b2 = build.clone();
    match search(ctx, 10, n_random, strat, move |ctx, v| {
        let d = b2(v);
        ctx.eval();
        let p = check_canonical(psl_ref, &d)?;
        check_structural(&d)?;
        ctx.class(&format!("random/{}", prevailing_name(p)));
        if p != Prevailing::Implicit {
            ctx.nontrivial(&d);
        }
        ctx.sample(&format!("random/{}", prevailing_name(p)), || json!({"name": d}));
        Ok(())
    }) {
        Search::Pass => {}
        Search::Fail(v, msg) => ctx.violation("random", json!({"name": build(&v)}), &msg),
    }

    // ---- stage 3: arbitrary strings, structural checks only
    let piece = prop_oneof![
        4 => "[a-z0-9-]{1,8}".prop_map(|s| s),
        2 => Just(".".to_string()),
        1 => Just("..".to_string()),
        1 => "[A-Za-z]{1,5}".prop_map(|s| s),
        1 => "\\PC{1,3}".prop_map(|s| s),
        1 => prop_oneof![Just("com"), Just("co.uk"), Just("ck"), Just("www.ck"), Just("xn--55qx5d.cn"), Just("公司.cn"), Just("kawasaki.jp"), Just("city.kawasaki.jp"), Just("*"), Just("!"), Just(" ")].prop_map(|s| s.to_string()),
        1 => (1usize..400).prop_map(|n| "abcdefghij.".repeat(n)),
        // characters that other software treats as label separators (IDNA full stops) or that look like dots: for the
        // suffix algorithm only U+002E separates labels, everything else is part of a label
        2 => prop_oneof![Just("\u{3002}"), Just("\u{FF0E}"), Just("\u{FF61}"), Just("\u{2024}"), Just("\u{FE52}"), Just("\u{00B7}"), Just("a\u{3002}b"), Just("x\u{FF0E}")].prop_map(|s| s.to_string()),
        // numeric labels and whole address literals (they are names like any other for the suffix algorithm)
        1 => (0u16..300).prop_map(|n| n.to_string()),
        1 => any::<[u8; 4]>().prop_map(|b| format!("{}.{}.{}.{}", b[0], b[1], b[2], b[3])),
        1 => prop_oneof![Just("::1"), Just("::ffff:1.2.3.4"), Just("[::1]"), Just("fe80::1"), Just("2001:db8::1"), Just("127.1"), Just("0x7f.0.0.1"), Just("1.2.3.4.5")].prop_map(|s| s.to_string()),
    ];
    // labels mostly joined by single dots so that most strings are names without empty labels; rule tails are
    // appended often, in original or mangled case
    let rule_names2: Vec<String> = psl.rules.iter().map(|r| r.name.clone()).collect();
    let nr2 = rule_names2.len();
    let strat = (proptest::collection::vec(piece, 0..6), proptest::bool::weighted(0.75), proptest::option::weighted(0.6, (any::<u16>(), 0u8..4))).prop_map(move |(v, dotted, tail)| {
        let mut s = if dotted { v.iter().filter(|p| !p.chars().all(|c| c == '.')).cloned().collect::<Vec<_>>().join(".") } else { v.concat() };
        if let Some((r, mangle)) = tail {
            let name = &rule_names2[idx(r, nr2)];
            let t = match mangle {
                0 => name.clone(),
                1 => name.to_uppercase(),
                2 => {
                    // upper-case the last character of each label
                    name.split('.').map(|l| { let mut c: Vec<char> = l.chars().collect(); if let Some(x) = c.last_mut() { *x = x.to_ascii_uppercase(); } c.into_iter().collect::<String>() }).collect::<Vec<_>>().join(".")
                }
                _ => {
                    let mut c: Vec<char> = name.chars().collect();
                    if let Some(x) = c.first_mut() { *x = x.to_ascii_uppercase(); }
                    c.into_iter().collect()
                }
            };
            if !s.is_empty() { s.push('.'); }
            s.push_str(&t);
        }
        s
    });
    let n_struct = ctx.tier.pick(100_000u32, 24_000_000u32);
    match search(ctx, 11, n_struct, strat, |ctx, s| {
        ctx.eval();
        check_structural(s)?;
        let empty_label = s.is_empty() || s.split('.').any(|l| l.is_empty());
        if !empty_label {
            // any name without empty labels: the rules are matched label by label as they are written in the
            // list (A-label form), so the reference applies literally to mixed-case and Unicode labels as well
            let p = check_canonical(psl_ref, s).map_err(|e| format!("{e} [non-canonical name, literal label matching]"))?;
            if p != Prevailing::Implicit {
                ctx.nontrivial(s);
            }
            ctx.class(&format!("literal/{}", prevailing_name(p)));
        }
        ctx.class(if empty_label { "structural/empty-label" } else if !s.is_ascii() { "structural/unicode" } else if s.len() > 253 { "structural/long" } else { "structural/other" });
        if s.is_empty() {
            ctx.measure("is_effective_tld_of_empty_string_true", DEFAULT_PROVIDER.is_effective_tld("") as u64);
        }
        ctx.sample("structural", || json!({"string": trunc(s)}));
        Ok(())
    }) {
        Search::Pass => {}
        Search::Fail(v, msg) => ctx.violation("structural", json!({"string": v}), &msg),
    }
    // address literals and numeric names: no rule matches, the implicit rule applies like for any other name
    for s in ["192.168.0.1", "1.2.3.4", "255.255.255.255", "0.0.0.0", "127.0.0.1", "10.0.0.1", "::1", "::ffff:1.2.3.4", "::ffff:192.168.0.1", "[::1]", "fe80::1", "1", "1.2", "127.1", "1.2.3.4.5", "256.1.1.1", "01.2.3.4", "1.2.3.d"] {
        ctx.eval();
        ctx.class("literal/address-like");
        if let Err(e) = check_structural(s).and_then(|_| if s.split('.').any(|l| l.is_empty()) { Ok(()) } else { check_canonical(psl_ref, s).map(|_| ()) }) {
            ctx.violation("structural-fixed", json!({"string": s}), &e);
        }
    }
    // IDNA full-stop variants in every position relative to a rule (they are not separators here)
    for dot in ['\u{3002}', '\u{FF0E}', '\u{FF61}'] {
        for tmpl in ["example{}com", "b{}a.co.uk", "z.b{}a.ck", "www{}ck", "a.b{}city.kobe.jp", "{}", "{}com", "com{}", "a{}", "x.y{}z"] {
            let s = tmpl.replace("{}", &dot.to_string());
            ctx.eval();
            ctx.class("literal/dot-like characters");
            if let Err(e) = check_structural(&s).and_then(|_| if s.split('.').any(|l| l.is_empty()) { Ok(()) } else { check_canonical(psl_ref, &s).map(|_| ()) }) {
                ctx.violation("structural-fixed", json!({"string": s}), &e);
            }
        }
    }
    // a few fixed adversarial strings
    for s in ["", ".", "..", "a.", ".a", "a..b", "COM", "Example.COM", "\u{0}", "com.", "*.ck", "!www.ck", "xn--", "xn--.com", &"a.".repeat(20000), &"a".repeat(100000)] {
        ctx.eval();
        if let Err(e) = check_structural(s) {
            ctx.violation("structural-fixed", json!({"string": s}), &e);
        }
    }
}

pub fn replay(ctx: &mut Ctx, stage: &str, case: &Value) -> Result<(), String> {
    let _ = ctx;
    if let Some(n) = case.get("name").and_then(|v| v.as_str()) {
        let psl = Psl::load()?;
        check_canonical(&psl, n)?;
        check_structural(n)
    } else if let Some(s) = case.get("string").and_then(|v| v.as_str()) {
        check_structural(s)?;
        if !(s.is_empty() || s.split('.').any(|l| l.is_empty())) {
            let psl = Psl::load()?;
            check_canonical(&psl, s)?;
        }
        Ok(())
    } else {
        Err(format!("bad replay case for stage {stage}"))
    }
}
