//! C05 — credentials are used only for their own RP and as the allow/exclude lists say.

use std::sync::Arc;

use passkey_authenticator::{CredentialStore, MemoryStore};
use passkey_types::ctap2::{get_assertion, make_credential};
use passkey_types::Passkey;
use proptest::prelude::*;
use serde::{Deserialize, Serialize};
use serde_json::{json, Value};

use crate::cer::{self, AuthCfg};
use crate::ceremony::StoreAccess;
use crate::core::{idx, search, Ctx, Search};
use crate::model::util::{make_passkey, snap, PkSnap};
use crate::rt::{block_on, contract_find, Disc, RefStore, ScriptedUv, StoreCall, UvScript};

const RPS: [&str; 5] = ["example.com", "login.example.org", "login.example.com", "Example.com", "foo.co.uk"];
pub const SIG_D5: &str = "memorystore-ids-foreign-rp";

#[derive(Clone, Copy, Debug, Serialize, Deserialize, PartialEq, Eq, Hash)]
pub enum Kind {
    Ref,
    Memory,
    OptionSlot,
    ArcMutexMemory,
    ArcRwLockMemory,
    MutexMemory,
    RwLockMemory,
    ArcMutexOption,
    RwLockOption,
}

impl Kind {
    fn memory_family(self) -> bool {
        matches!(self, Kind::Memory | Kind::ArcMutexMemory | Kind::ArcRwLockMemory | Kind::MutexMemory | Kind::RwLockMemory)
    }
    fn single_slot(self) -> bool {
        matches!(self, Kind::OptionSlot | Kind::ArcMutexOption | Kind::RwLockOption)
    }
}

/// a credential description: (rp index, user handle index)
#[derive(Clone, Debug, Serialize, Deserialize, PartialEq, Eq, Hash)]
pub struct CredDesc {
    pub rp: usize,
    pub user: u8,
    pub counter: Option<u32>,
}

#[derive(Clone, Debug, Serialize, Deserialize, PartialEq, Eq, Hash)]
pub enum IdSel {
    /// id of the k-th credential of the contents (any RP)
    Held(u16, bool),
    /// an id nobody holds
    Miss(u8, bool),
    /// almost the id of the k-th credential: 0 its first half, 1 the id plus one byte, 2 the empty id, 3 all but its last byte
    /// (nobody holds these either)
    Near(u16, u8, bool),
}

#[derive(Clone, Debug, Serialize, Deserialize, PartialEq, Eq, Hash)]
pub enum ListSel {
    Absent,
    Empty,
    Ids(Vec<IdSel>),
}

#[derive(Clone, Debug, Serialize, Deserialize, PartialEq, Eq, Hash)]
pub struct CaseA {
    pub kind: Kind,
    pub contents: Vec<CredDesc>,
    pub create: bool,
    pub rp: usize,
    pub list: ListSel,
    /// reference store only: a lookup that matches nothing answers Ok(empty list) instead of NoCredentials
    #[serde(default)]
    pub empty_ok: bool,
    /// reference store, assertions: the first lookup fails with this status byte (whatever the authenticator does then,
    /// an assertion it produces must still respect RP and allow list)
    #[serde(default)]
    pub find_fault: Option<u8>,
    /// reference store, registrations with a non-empty exclude list: while the user is asked, 1 = a credential of the RP
    /// with the first named id arrives, 2 = the named credentials of the RP are removed (what is held when the user has
    /// answered decides)
    #[serde(default)]
    pub prompt_change: u8,
    /// registrations: the algorithm preference list. 0 [-7], 1 [-257, -8] (nothing supported), 2 empty, 3 [-8, -7]
    #[serde(default)]
    pub algs: u8,
    /// the request does not ask for verification and the user is present but not verified (on an authenticator that could
    /// verify): lists apply all the same
    #[serde(default)]
    pub presence_only: bool,
    /// assertions: the authenticator supports hmac-secret, held credentials hold secrets, and the request carries PRF inputs
    /// with per-credential entries keyed by every credential held for the RP (bit 0) and by ids nobody holds (bit 1): which
    /// credential signs is decided by RP and allow list alone
    #[serde(default)]
    pub prf_keys: u8,
}

/// credential ids of varying length (1..=255 bytes, incl. lengths an authenticator of this library never mints)
fn cred_id(k: usize) -> Vec<u8> {
    const LENS: [usize; 12] = [19, 8, 100, 16, 64, 15, 65, 32, 5, 255, 17, 63];
    let base = format!("{k:04}-c05-credential-{}", "x".repeat(240));
    base.as_bytes()[..LENS[k % LENS.len()]].to_vec()
}

fn build(contents: &[CredDesc]) -> Vec<Passkey> {
    contents.iter().enumerate().map(|(k, c)| make_passkey(500 + k as u64, RPS[c.rp % RPS.len()], &cred_id(k), Some(format!("user-{}", c.user % 2).as_bytes()), c.counter, None)).collect()
}

fn list_ids(sel: &ListSel, n: usize) -> Option<Vec<(Vec<u8>, bool)>> {
    match sel {
        ListSel::Absent => None,
        ListSel::Empty => Some(vec![]),
        ListSel::Ids(v) => Some(
            v.iter()
                .map(|s| match s {
                    IdSel::Held(k, t) if n > 0 => (cred_id(idx(*k, n)), *t),
                    IdSel::Held(_, t) => (b"nothing-held".to_vec(), *t),
                    IdSel::Miss(m, t) => (format!("missing-{m}").into_bytes(), *t),
                    IdSel::Near(k, mode, t) => {
                        let id = if n > 0 { cred_id(idx(*k, n)) } else { b"nothing-held".to_vec() };
                        let near = match mode % 4 {
                            0 => id[..id.len() / 2].to_vec(),
                            1 => [id.as_slice(), b"\0"].concat(),
                            2 => vec![],
                            _ => id[..id.len() - 1].to_vec(),
                        };
                        (near, *t)
                    }
                })
                .collect(),
        ),
    }
}

impl StoreAccess for Arc<tokio::sync::Mutex<MemoryStore>> {
    fn snapshot(&self) -> Vec<PkSnap> {
        self.try_lock().unwrap().snapshot()
    }
    fn put(&mut self, pk: Passkey) {
        self.try_lock().unwrap().put(pk)
    }
}

/// (A) the authenticator's use of the lists, on one store kind
fn run_a<S: StoreAccess>(ctx: &mut Ctx, mut store: S, c: &CaseA, ref_handle: Option<RefStore>) -> Result<(), String> {
    let mut creds = build(&c.contents);
    if c.prf_keys != 0 && !c.create {
        for (k, pk) in creds.iter_mut().enumerate() {
            pk.extensions.hmac_secret = Some(passkey_types::StoredHmacSecret { cred_with_uv: vec![k as u8; 32], cred_without_uv: Some(vec![!(k as u8); 32]) });
        }
        ctx.class("authenticator/assertion with per-credential PRF inputs");
    }
    if c.presence_only {
        ctx.class("authenticator/user present but not verified (verification not requested)");
    }
    let creds: Vec<Passkey> = if c.kind.single_slot() { creds.into_iter().take(1).collect() } else { creds };
    for pk in &creds {
        store.put(pk.clone());
    }
    let before = store.snapshot();
    let rp = RPS[c.rp % RPS.len()];
    let ids = list_ids(&c.list, creds.len());
    let descriptors = ids.as_ref().map(|l| l.iter().enumerate().map(|(n, (i, t))| cer::descriptor_full(i, *t, (i.len() + n) as u8)).collect::<Vec<_>>());
    let named: Option<Vec<Vec<u8>>> = ids.as_ref().filter(|l| !l.is_empty()).map(|l| l.iter().map(|(i, _)| i.clone()).collect());
    let uv = ScriptedUv::new(if c.presence_only { UvScript::present_only() } else { UvScript::verified() });
    // what is held once the user has answered
    let mut creds = creds;
    let mut faulted = false;
    if let Some(r) = &ref_handle {
        if let (false, Some(code)) = (c.create, c.find_fault) {
            r.set_faults([(0usize, code)].into_iter().collect());
            faulted = true;
            ctx.class("authenticator/first lookup fails");
        }
        if let (true, Some(n), 1..=2) = (c.create, &named, c.prompt_change % 3) {
            let r2 = r.clone();
            if c.prompt_change % 3 == 1 {
                if !creds.iter().any(|p| p.rp_id == rp && p.credential_id.as_slice() == n[0].as_slice()) {
                    let late = make_passkey(777, rp, &n[0], Some(b"user-0"), None, None);
                    creds.push(late.clone());
                    uv.on_next_check(move || r2.0.lock().unwrap().creds.push(late));
                    ctx.class("authenticator/a named credential arrives during the prompt");
                }
            } else {
                let n2 = n.clone();
                let rp2 = rp.to_string();
                creds.retain(|p| !(p.rp_id == rp && n.contains(&p.credential_id.to_vec())));
                uv.on_next_check(move || r2.0.lock().unwrap().creds.retain(|p| !(p.rp_id == rp2 && n2.contains(&p.credential_id.to_vec()))));
                ctx.class("authenticator/the named credentials are removed during the prompt");
            }
        }
    }
    let before = if ref_handle.is_some() && c.create && c.prompt_change % 3 != 0 { creds.iter().map(snap).collect() } else { before };
    let mut auth = cer::build_authenticator(store, uv, &AuthCfg { hmac: if c.prf_keys != 0 && !c.create { cer::HmacCfg::WithoutUv } else { cer::HmacCfg::None }, ..Default::default() });
    let held_for_rp: Vec<&Passkey> = creds.iter().filter(|p| p.rp_id == rp).collect();
    let names_foreign = named.as_ref().is_some_and(|n| creds.iter().any(|p| p.rp_id != rp && n.contains(&p.credential_id.to_vec())));
    ctx.eval();
    ctx.sample(&format!("authenticator/{:?}/{}", c.kind, if c.create { "create" } else { "assert" }), || json!(c));
    let populated_rps = RPS.iter().filter(|r| creds.iter().any(|p| p.rp_id == **r)).count();
    if populated_rps >= 2 && names_foreign {
        ctx.nontrivial(c);
    }
    if c.create {
        let req = make_credential::Request {
            client_data_hash: vec![3u8; 32].into(),
            rp: make_credential::PublicKeyCredentialRpEntity { id: rp.into(), name: None },
            user: passkey_types::webauthn::PublicKeyCredentialUserEntity { id: b"user-0".to_vec().into(), display_name: "d".into(), name: "n".into() },
            pub_key_cred_params: cer::params([&[-7i64][..], &[-257, -8], &[], &[-8, -7]][c.algs as usize % 4]),
            exclude_list: descriptors,
            extensions: None,
            options: make_credential::Options { rk: false, up: true, uv: !c.presence_only },
            pin_auth: None,
            pin_protocol: None,
        };
        let res = std::panic::catch_unwind(std::panic::AssertUnwindSafe(|| block_on(auth.make_credential(req)))).map_err(|_| format!("make_credential panicked: {}", crate::last_panic()))?.map_err(u8::from);
        let after = auth.store().snapshot();
        let must_exclude = named.as_ref().is_some_and(|n| held_for_rp.iter().any(|p| n.contains(&p.credential_id.to_vec())));
        match res {
            Err(0x19) => {
                ctx.class("create/excluded");
                if after != before {
                    return Err("credential-excluded but the store changed".into());
                }
                if !must_exclude {
                    if c.kind.memory_family() && names_foreign {
                        if ctx.is_known(SIG_D5) {
                            ctx.known_hit(SIG_D5);
                            return Ok(());
                        }
                        return Err(format!("registration for {rp:?} refused with credential-excluded although the exclude list only names a credential of another RP ({:?})", c.kind));
                    }
                    return Err(format!("registration refused with credential-excluded although the exclude list ({:?}) names no credential held for {rp:?}", c.list));
                }
            }
            Err(e) => {
                ctx.class("create/other-error");
                if c.algs % 4 == 1 {
                    ctx.class("create/no supported algorithm offered");
                }
                if must_exclude {
                    return Err(format!("exclude list names a held credential of {rp:?} but the error is 0x{e:02X}, not credential-excluded"));
                }
            }
            Ok(_) => {
                ctx.class("create/created");
                if must_exclude {
                    return Err(format!("a credential was created although the exclude list names one already held for {rp:?}"));
                }
                if !c.kind.single_slot() && after.len() != before.len() + 1 {
                    ctx.measure("registration succeeded but the store did not grow by one (C02's matter)", 1);
                }
            }
        }
        if let Some(r) = &ref_handle {
            for call in r.log() {
                if let StoreCall::Find { ids, rp_id, .. } = call {
                    if rp_id != rp {
                        return Err(format!("store lookup used RP ID {rp_id:?}, the request's is {rp:?}"));
                    }
                    if ids.as_ref().is_some_and(|i| i.is_empty()) {
                        ctx.measure("store queried with an empty id list", 1);
                    }
                }
            }
        }
    } else {
        let req = get_assertion::Request {
            rp_id: rp.into(),
            client_data_hash: vec![3u8; 32].into(),
            allow_list: descriptors,
            extensions: (c.prf_keys != 0).then(|| {
                use passkey_types::ctap2::extensions::{AuthenticatorPrfInputs, AuthenticatorPrfValues};
                let mut m = std::collections::HashMap::new();
                if c.prf_keys & 1 != 0 {
                    for (k, p) in creds.iter().enumerate().filter(|(_, p)| p.rp_id == rp) {
                        m.insert(p.credential_id.clone(), AuthenticatorPrfValues { first: [k as u8; 32], second: None });
                    }
                }
                if c.prf_keys & 2 != 0 {
                    m.insert(b"prf-key-nobody-holds".to_vec().into(), AuthenticatorPrfValues { first: [0xEE; 32], second: None });
                }
                get_assertion::ExtensionInputs { hmac_secret: None, prf: Some(AuthenticatorPrfInputs { eval: Some(AuthenticatorPrfValues { first: [0x11; 32], second: None }), eval_by_credential: (!m.is_empty()).then_some(m) }) }
            }),
            options: get_assertion::Options { rk: false, up: true, uv: !c.presence_only },
            pin_auth: None,
            pin_protocol: None,
        };
        let res = std::panic::catch_unwind(std::panic::AssertUnwindSafe(|| block_on(auth.get_assertion(req)))).map_err(|_| format!("get_assertion panicked: {}", crate::last_panic()))?;
        let eligible: Vec<&Passkey> = held_for_rp.iter().copied().filter(|p| named.as_ref().map_or(true, |n| n.contains(&p.credential_id.to_vec()))).collect();
        match res {
            Ok(resp) => {
                ctx.class("assert/success");
                let used = resp.credential.as_ref().map(|d| d.id.to_vec()).ok_or("no credential in the response")?;
                let Some(pk) = creds.iter().find(|p| p.credential_id.as_slice() == used.as_slice()) else {
                    return Err("assertion with a credential the store does not hold".into());
                };
                if pk.rp_id != rp {
                    if c.kind.memory_family() && names_foreign && named.as_ref().is_some_and(|n| n.contains(&used)) {
                        if ctx.is_known(SIG_D5) {
                            ctx.known_hit(SIG_D5);
                            return Ok(());
                        }
                        return Err(format!("assertion for {rp:?} made with a credential bound to {:?} that the allow list named ({:?} ignores the RP ID)", pk.rp_id, c.kind));
                    }
                    return Err(format!("assertion for {rp:?} made with a credential bound to {:?}", pk.rp_id));
                }
                if let Some(n) = &named {
                    if !n.contains(&used) {
                        return Err(format!("assertion made with credential {} which the non-empty allow list does not name", String::from_utf8_lossy(&used[..used.len().min(24)])));
                    }
                }
                // an absent or empty list selects the first credential the store lists (reference store: insertion
                // order); for a non-empty list the statement only demands a named credential of this RP (checked above)
                if ref_handle.is_some() && named.is_some() && Some(&used) != eligible.first().map(|p| p.credential_id.to_vec()).as_ref() {
                    ctx.measure("non-empty allow list: a named credential other than the first listed one was used", 1);
                }
                if ref_handle.is_some() && named.is_none() {
                    let first = eligible.first().map(|p| p.credential_id.to_vec());
                    if Some(&used) != first.as_ref() {
                        return Err(format!("credential {} was used, the first one the store lists for the query is {:?}", String::from_utf8_lossy(&used[..used.len().min(24)]), first.map(|f| String::from_utf8_lossy(&f).to_string())));
                    }
                }
            }
            Err(e) => {
                ctx.class("assert/error");
                if !eligible.is_empty() {
                    if named.is_some() {
                        // the statement restricts which credential a non-empty list may select, it does not promise success
                        ctx.measure("non-empty allow list with an eligible credential, assertion failed", 1);
                    } else if faulted {
                        ctx.measure("assertion failed while the first lookup was made to fail", 1);
                    } else {
                        // "an absent or empty allow list selects the first credential the store lists": there is one
                        return Err(format!("a credential is held for {rp:?} and the allow list is absent or empty, but the assertion failed with 0x{:02X}", u8::from(e)));
                    }
                }
            }
        }
        if let Some(r) = &ref_handle {
            for call in r.log() {
                if let StoreCall::Find { ids, rp_id, .. } = call {
                    if rp_id != rp {
                        return Err(format!("store lookup used RP ID {rp_id:?}, the request's is {rp:?}"));
                    }
                    // how the list is handed over is the library's business; the selection above is what the statement fixes
                    if ids.as_ref().is_some_and(|i| i.is_empty()) || ids.is_none() != named.is_none() {
                        ctx.measure("store queried with a list shape other than the request's (empty as Some, or presence differs)", 1);
                    }
                }
            }
        }
    }
    Ok(())
}

pub fn check_a(ctx: &mut Ctx, c: &CaseA) -> Result<(), String> {
    match c.kind {
        Kind::Ref => {
            let s = RefStore::new(Disc::Full);
            s.set_empty_ok(c.empty_ok);
            if c.empty_ok {
                ctx.class("authenticator/reference store answering a miss with Ok(empty)");
            }
            run_a(ctx, s.clone(), c, Some(s))
        }
        Kind::Memory => run_a(ctx, MemoryStore::new(), c, None),
        Kind::OptionSlot => run_a(ctx, None::<Passkey>, c, None),
        _ => run_a(ctx, Arc::new(tokio::sync::Mutex::new(MemoryStore::new())), c, None),
    }
}

// ------------------------------------------------------------------ (B) contract conformance

#[derive(Clone, Debug, Serialize, Deserialize, PartialEq, Eq, Hash)]
pub enum StoreOp {
    Save(CredDesc),
    /// update the k-th held credential's counter
    Update(u16, u32),
    Query(ListSel, usize),
}

#[derive(Clone, Debug, Serialize, Deserialize, PartialEq, Eq, Hash)]
pub struct CaseB {
    pub kind: Kind,
    pub ops: Vec<StoreOp>,
}

fn run_b<S: CredentialStore<PasskeyItem = Passkey>>(ctx: &mut Ctx, mut store: S, c: &CaseB) -> Result<(), String> {
    // model: list of held credentials in insertion order
    let mut held: Vec<Passkey> = vec![];
    let mut k = 0usize;
    for (i, op) in c.ops.iter().enumerate() {
        match op {
            StoreOp::Save(d) => {
                let pk = make_passkey(700 + k as u64, RPS[d.rp % RPS.len()], &cred_id(k), Some(format!("user-{}", d.user % 2).as_bytes()), d.counter, None);
                k += 1;
                let user = passkey_types::ctap2::make_credential::PublicKeyCredentialUserEntity { id: b"u".to_vec().into(), name: None, display_name: None, icon_url: None };
                let rp = make_credential::PublicKeyCredentialRpEntity { id: pk.rp_id.clone(), name: None };
                block_on(store.save_credential(pk.clone(), user, rp, get_assertion::Options { rk: true, up: true, uv: true })).map_err(|e| format!("op #{i}: save failed with 0x{:02X}", u8::from(e)))?;
                if c.kind.single_slot() {
                    held.clear();
                }
                held.push(pk);
            }
            StoreOp::Update(j, counter) => {
                if held.is_empty() {
                    continue;
                }
                let t = idx(*j, held.len());
                let mut pk = held[t].clone();
                pk.counter = Some(*counter);
                block_on(store.update_credential(pk.clone())).map_err(|e| format!("op #{i}: update failed with 0x{:02X}", u8::from(e)))?;
                held[t] = pk;
            }
            StoreOp::Query(list, rpi) => {
                let rp = RPS[rpi % RPS.len()];
                // ids refer to cred_id(k) of everything ever saved
                let ids = list_ids(list, k);
                let descriptors = ids.as_ref().map(|l| l.iter().map(|(i, t)| cer::descriptor_ty(i, *t)).collect::<Vec<_>>());
                let idv: Option<Vec<Vec<u8>>> = ids.as_ref().map(|l| l.iter().map(|(i, _)| i.clone()).collect());
                let got = std::panic::catch_unwind(std::panic::AssertUnwindSafe(|| block_on(store.find_credentials(descriptors.as_deref(), rp)))).map_err(|_| format!("find_credentials panicked: {}", crate::last_panic()))?.map_err(u8::from);
                let want: Vec<PkSnap> = {
                    let mut v: Vec<PkSnap> = contract_find(&held, idv.as_deref(), rp).into_iter().map(snap).collect();
                    v.sort_by(|a, b| a.id.cmp(&b.id));
                    v
                };
                ctx.eval();
                let all: usize = held.len();
                if want.len() != all {
                    ctx.nontrivial(&(c.kind, &held.iter().map(|p| (p.credential_id.to_vec(), p.rp_id.clone())).collect::<Vec<_>>(), &idv, rp));
                }
                let mut got_v: Vec<PkSnap> = match got {
                    Ok(v) => v.iter().map(snap).collect(),
                    Err(0x2E) => vec![],
                    Err(e) => return Err(format!("op #{i}: find_credentials failed with 0x{e:02X}")),
                };
                got_v.sort_by(|a, b| a.id.cmp(&b.id));
                got_v.dedup();
                ctx.class(&format!("query/{}/{}", match list { ListSel::Absent => "ids-absent", ListSel::Empty => "ids-empty", ListSel::Ids(_) => "ids" }, if want.is_empty() { "expect-none" } else { "expect-some" }));
                if got_v != want {
                    let missing: Vec<&PkSnap> = want.iter().filter(|w| !got_v.contains(w)).collect();
                    let extra: Vec<&PkSnap> = got_v.iter().filter(|g| !want.contains(g)).collect();
                    let extra_are_foreign_id_hits = !extra.is_empty() && extra.iter().all(|e| e.rp_id != rp && idv.as_ref().is_some_and(|l| l.contains(&e.id)) && held.iter().any(|h| snap(h) == **e));
                    if missing.is_empty() && extra_are_foreign_id_hits && c.kind.memory_family() {
                        if ctx.is_known(SIG_D5) {
                            ctx.known_hit(SIG_D5);
                            continue;
                        }
                        return Err(format!("op #{i}: {:?}.find_credentials(ids, {rp:?}) returned credentials bound to another RP: {:?}", c.kind, extra.iter().map(|e| (String::from_utf8_lossy(&e.id).to_string(), e.rp_id.clone())).collect::<Vec<_>>()));
                    }
                    return Err(format!(
                        "op #{i}: {:?}.find_credentials({:?}, {rp:?}) does not implement the lookup contract: missing {:?}, extra {:?}",
                        c.kind,
                        idv.as_ref().map(|l| l.iter().map(|i| String::from_utf8_lossy(i).to_string()).collect::<Vec<_>>()),
                        missing.iter().map(|e| (String::from_utf8_lossy(&e.id).to_string(), e.rp_id.clone(), e.counter)).collect::<Vec<_>>(),
                        extra.iter().map(|e| (String::from_utf8_lossy(&e.id).to_string(), e.rp_id.clone(), e.counter)).collect::<Vec<_>>()
                    ));
                }
            }
        }
    }
    Ok(())
}

pub fn check_b(ctx: &mut Ctx, c: &CaseB) -> Result<(), String> {
    use tokio::sync::{Mutex, RwLock};
    ctx.sample(&format!("contract/{:?}", c.kind), || json!(c));
    match c.kind {
        Kind::Ref => run_b(ctx, RefStore::new(Disc::Full), c),
        Kind::Memory => run_b(ctx, MemoryStore::new(), c),
        Kind::OptionSlot => run_b(ctx, None::<Passkey>, c),
        Kind::ArcMutexMemory => run_b(ctx, Arc::new(Mutex::new(MemoryStore::new())), c),
        Kind::ArcRwLockMemory => run_b(ctx, Arc::new(RwLock::new(MemoryStore::new())), c),
        Kind::MutexMemory => run_b(ctx, Mutex::new(MemoryStore::new()), c),
        Kind::RwLockMemory => run_b(ctx, RwLock::new(MemoryStore::new()), c),
        Kind::ArcMutexOption => run_b(ctx, Arc::new(Mutex::new(None::<Passkey>)), c),
        Kind::RwLockOption => run_b(ctx, RwLock::new(None::<Passkey>), c),
    }
}

// ------------------------------------------------------------------ (C) lock wrappers under contention

/// a lookup / update / save issued through a lock wrapper while another task holds the wrapper's lock
#[derive(Clone, Debug, Serialize, Deserialize, PartialEq, Eq, Hash)]
pub struct CaseC {
    pub kind: Kind,
    pub contents: Vec<CredDesc>,
    pub list: ListSel,
    pub rp: usize,
    /// RwLock wrappers only: the other task holds a read lock (otherwise the write lock / the mutex)
    pub shared_hold: bool,
    /// 0 lookup; 1 counter update; 2 save of a further credential (1 and 2 only through the Arc wrappers: a plain
    /// wrapper is borrowed exclusively by these calls and cannot be contended)
    pub op: u8,
}

type Found = Result<Vec<Passkey>, u8>;

/// poll `fut` a few times while `guard` is alive, release, run to completion; (result, answered while the lock was held)
fn under_guard<'a, T, G>(fut: impl std::future::Future<Output = T> + 'a, guard: G) -> Result<(T, bool), String> {
    let mut t = crate::rt::Task::new(fut);
    let mut early = false;
    for _ in 0..3 {
        if t.poll() {
            early = true;
            break;
        }
    }
    drop(guard);
    let mut n = 0;
    while !t.is_done() {
        if n > 1000 || (n > 0 && !t.is_runnable()) {
            return Err("the call never completes after the other task released the lock".into());
        }
        t.poll();
        n += 1;
    }
    Ok((t.output.take().ok_or("no output")?, early))
}

fn check_c(ctx: &mut Ctx, c: &CaseC) -> Result<(), String> {
    use tokio::sync::{Mutex, RwLock};
    ctx.eval();
    ctx.sample(&format!("contended/{:?}", c.kind), || json!(c));
    let creds = build(&c.contents);
    let creds: Vec<Passkey> = if c.kind.single_slot() { creds.into_iter().take(1).collect() } else { creds };
    let mem = || {
        let mut m = MemoryStore::new();
        for pk in &creds {
            m.put(pk.clone());
        }
        m
    };
    let slot = || creds.first().cloned();
    let rp = RPS[c.rp % RPS.len()];
    let ids = list_ids(&c.list, creds.len());
    let descriptors = ids.as_ref().map(|l| l.iter().map(|(i, t)| cer::descriptor_ty(i, *t)).collect::<Vec<_>>());
    let idv: Option<Vec<Vec<u8>>> = ids.as_ref().map(|l| l.iter().map(|(i, _)| i.clone()).collect());
    let d = descriptors.as_deref();
    let arc_kind = matches!(c.kind, Kind::ArcMutexMemory | Kind::ArcRwLockMemory | Kind::ArcMutexOption);
    let op = if arc_kind { c.op % 3 } else { 0 };
    let rw = matches!(c.kind, Kind::ArcRwLockMemory | Kind::RwLockMemory | Kind::RwLockOption);
    let shared = rw && c.shared_hold;
    // the model after the operation
    let mut held = creds.clone();
    let fresh = make_passkey(990, rp, b"c05-contended-fresh-credential", Some(b"user-0"), Some(1), None);
    let mut touched: Option<Passkey> = None;
    match op {
        1 => {
            if let Some(first) = held.first_mut() {
                first.counter = Some(first.counter.unwrap_or(0).wrapping_add(41));
                touched = Some(first.clone());
            }
        }
        2 => {
            if c.kind.single_slot() {
                held.clear();
            }
            held.push(fresh.clone());
            touched = Some(fresh.clone());
        }
        _ => {}
    }
    if op != 0 && touched.is_none() {
        return Ok(());
    }
    ctx.nontrivial(c);
    ctx.class(&format!("contended/{}/{}", ["lookup", "update", "save"][op as usize], if shared { "reader-holds" } else { "writer-holds" }));
    let mk_user = || passkey_types::ctap2::make_credential::PublicKeyCredentialUserEntity { id: b"u".to_vec().into(), name: None, display_name: None, icon_url: None };
    let mk_rp = || make_credential::PublicKeyCredentialRpEntity { id: rp.to_string(), name: None };
    let mk_opts = || get_assertion::Options { rk: true, up: true, uv: true };
    let fe = |r: Result<Vec<Passkey>, passkey_types::ctap2::StatusCode>| -> Found { r.map_err(u8::from) };
    let me = |r: Result<(), passkey_types::ctap2::StatusCode>| -> Result<(), u8> { r.map_err(u8::from) };
    // (lookup result, mutation result, answered while locked, final lookup of everything the RP holds)
    macro_rules! arc_case {
        ($store:expr, $guard:ident) => {{
            let store = $store;
            let mut h = store.clone();
            let $guard = ();
            let _ = $guard;
            match op {
                0 => {
                    let (r, early) = under_guard(h.find_credentials(d, rp), guard_of!(store))?;
                    (Some(fe(r)), None, early, fe(block_on(store.find_credentials(None, rp))))
                }
                1 => {
                    let (r, early) = under_guard(h.update_credential(touched.clone().unwrap()), guard_of!(store))?;
                    (None, Some(me(r)), early, fe(block_on(store.find_credentials(None, rp))))
                }
                _ => {
                    let (r, early) = under_guard(h.save_credential(fresh.clone(), mk_user(), mk_rp(), mk_opts()), guard_of!(store))?;
                    (None, Some(me(r)), early, fe(block_on(store.find_credentials(None, rp))))
                }
            }
        }};
    }
    let (looked, mutated, early, after): (Option<Found>, Option<Result<(), u8>>, bool, Found) = match c.kind {
        Kind::ArcMutexMemory => {
            macro_rules! guard_of { ($s:expr) => { block_on($s.lock()) }; }
            arc_case!(Arc::new(Mutex::new(mem())), _g)
        }
        Kind::ArcMutexOption => {
            macro_rules! guard_of { ($s:expr) => { block_on($s.lock()) }; }
            arc_case!(Arc::new(Mutex::new(slot())), _g)
        }
        Kind::ArcRwLockMemory => {
            if shared {
                macro_rules! guard_of { ($s:expr) => { block_on($s.read()) }; }
                arc_case!(Arc::new(RwLock::new(mem())), _g)
            } else {
                macro_rules! guard_of { ($s:expr) => { block_on($s.write()) }; }
                arc_case!(Arc::new(RwLock::new(mem())), _g)
            }
        }
        Kind::MutexMemory => {
            let store = Mutex::new(mem());
            let (r, early) = under_guard(store.find_credentials(d, rp), block_on(store.lock()))?;
            (Some(fe(r)), None, early, fe(block_on(store.find_credentials(None, rp))))
        }
        Kind::RwLockMemory => {
            let store = RwLock::new(mem());
            let (r, early) = if shared { under_guard(store.find_credentials(d, rp), block_on(store.read()))? } else { under_guard(store.find_credentials(d, rp), block_on(store.write()))? };
            (Some(fe(r)), None, early, fe(block_on(store.find_credentials(None, rp))))
        }
        Kind::RwLockOption => {
            let store = RwLock::new(slot());
            let (r, early) = if shared { under_guard(store.find_credentials(d, rp), block_on(store.read()))? } else { under_guard(store.find_credentials(d, rp), block_on(store.write()))? };
            (Some(fe(r)), None, early, fe(block_on(store.find_credentials(None, rp))))
        }
        _ => return Ok(()),
    };
    if early {
        ctx.measure(if shared { "contended: answered while a reader held the lock" } else { "contended: answered while the lock was held exclusively" }, 1);
    }
    let as_set = |f: &Found, what: &str| -> Result<Vec<PkSnap>, String> {
        let mut v: Vec<PkSnap> = match f {
            Ok(v) => v.iter().map(snap).collect(),
            Err(0x2E) => vec![],
            Err(e) => return Err(format!("{:?}: {what} failed with 0x{e:02X} when issued while another task held the {} (answered {})", c.kind, if shared { "read lock" } else { "lock" }, if early { "while it was held" } else { "after its release" })),
        };
        v.sort_by(|a, b| a.id.cmp(&b.id));
        v.dedup();
        Ok(v)
    };
    let want_of = |ids: Option<&[Vec<u8>]>| {
        let mut v: Vec<PkSnap> = contract_find(&held, ids, rp).into_iter().map(snap).collect();
        v.sort_by(|a, b| a.id.cmp(&b.id));
        v
    };
    if let Some(f) = &looked {
        let got = as_set(f, "find_credentials")?;
        let want = want_of(idv.as_deref());
        if got != want {
            let extra_foreign = got.iter().filter(|g| !want.contains(g)).all(|e| e.rp_id != rp && idv.as_ref().is_some_and(|l| l.contains(&e.id))) && want.iter().all(|w| got.contains(w));
            if extra_foreign && c.kind.memory_family() && ctx.is_known(SIG_D5) {
                ctx.known_hit(SIG_D5);
            } else {
                return Err(format!("{:?}: a lookup issued while another task held the lock does not answer per the contract: got {} credentials, the contract gives {}", c.kind, got.len(), want.len()));
            }
        }
    }
    if let Some(Err(e)) = mutated {
        return Err(format!("{:?}: {} failed with 0x{e:02X} when issued while another task held the lock", c.kind, if op == 1 { "update_credential" } else { "save_credential" }));
    }
    let got = as_set(&after, "the follow-up lookup")?;
    if got != want_of(None) {
        return Err(format!("{:?}: after a contended {} the store's content for {rp:?} is not what the operations add up to", c.kind, ["lookup", "update", "save"][op as usize]));
    }
    Ok(())
}

fn case_c() -> impl Strategy<Value = CaseC> {
    let kinds = prop_oneof![Just(Kind::ArcMutexMemory), Just(Kind::ArcRwLockMemory), Just(Kind::MutexMemory), Just(Kind::RwLockMemory), Just(Kind::ArcMutexOption), Just(Kind::RwLockOption)];
    (kinds, proptest::collection::vec(cred_desc(), 0..6), list_sel(), 0usize..5, any::<bool>(), 0u8..3).prop_map(|(kind, contents, list, rp, shared_hold, op)| CaseC { kind, contents, list, rp, shared_hold, op })
}

// ------------------------------------------------------------------ strategies

fn cred_desc() -> impl Strategy<Value = CredDesc> {
    (0usize..5, any::<u8>(), proptest::option::of(0u32..100)).prop_map(|(rp, user, counter)| CredDesc { rp, user, counter })
}

fn list_sel() -> impl Strategy<Value = ListSel> {
    let id = prop_oneof![8 => (any::<u16>(), proptest::bool::weighted(0.8)).prop_map(|(k, t)| IdSel::Held(k, t)), 2 => (any::<u8>(), proptest::bool::weighted(0.6)).prop_map(|(k, t)| IdSel::Miss(k, t)), 3 => (any::<u16>(), 0u8..4, proptest::bool::weighted(0.8)).prop_map(|(k, m, t)| IdSel::Near(k, m, t))];
    // long lists: many ids nobody holds, then one more entry (lists are not bounded by the statement; stores that look ids
    // up in slices see several slices)
    let miss = (any::<u8>(), proptest::bool::weighted(0.8)).prop_map(|(k, t)| IdSel::Miss(k, t));
    let long = (proptest::collection::vec(miss, 15..45), id.clone(), any::<u16>()).prop_map(|(mut v, last, at)| {
        // the extra entry goes to the end or to a random place
        if at % 2 == 0 {
            v.push(last);
        } else {
            let p = idx(at, v.len() + 1);
            v.insert(p, last);
        }
        ListSel::Ids(v)
    });
    prop_oneof![2 => Just(ListSel::Absent), 2 => Just(ListSel::Empty), 5 => proptest::collection::vec(id, 1..5).prop_map(ListSel::Ids), 1 => long]
}

fn case_a() -> impl Strategy<Value = CaseA> {
    (prop_oneof![4 => Just(Kind::Ref), 2 => Just(Kind::Memory), 1 => Just(Kind::OptionSlot), 1 => Just(Kind::ArcMutexMemory)], proptest::collection::vec(cred_desc(), 0..9), any::<bool>(), 0usize..5, list_sel())
        .prop_map(|(kind, contents, create, rp, list)| {
            let empty_ok = kind == Kind::Ref && (contents.len() + rp) % 2 == 1;
            let sel = contents.iter().map(|c| c.user as usize).sum::<usize>();
            let find_fault = (kind == Kind::Ref && !create && sel % 4 == 0).then_some([0x28u8, 0x7F, 0x01, 0x06][sel / 4 % 4]);
            let prompt_change = if kind == Kind::Ref && create { (sel % 5) as u8 } else { 0 };
            let algs = if create && sel % 3 == 0 { (sel / 3 % 4) as u8 } else { 0 };
            let presence_only = (sel + rp) % 3 == 1;
            let prf_keys = if !create && find_fault.is_none() && (sel + rp) % 4 == 2 { 1 + (sel % 3) as u8 } else { 0 };
            CaseA { kind, contents, create, rp, list, empty_ok, find_fault, prompt_change, algs, presence_only, prf_keys }
        })
}

fn case_b() -> impl Strategy<Value = CaseB> {
    let kinds = prop_oneof![
        Just(Kind::Memory),
        Just(Kind::OptionSlot),
        Just(Kind::ArcMutexMemory),
        Just(Kind::ArcRwLockMemory),
        Just(Kind::MutexMemory),
        Just(Kind::RwLockMemory),
        Just(Kind::ArcMutexOption),
        Just(Kind::RwLockOption),
        Just(Kind::Ref),
    ];
    let op = prop_oneof![3 => cred_desc().prop_map(StoreOp::Save), 1 => (any::<u16>(), any::<u32>()).prop_map(|(j, c)| StoreOp::Update(j, c)), 5 => (list_sel(), 0usize..5).prop_map(|(l, r)| StoreOp::Query(l, r))];
    (kinds, proptest::collection::vec(op, 1..16)).prop_map(|(kind, ops)| CaseB { kind, ops })
}

pub fn run(ctx: &mut Ctx) {
    let fs = ctx.first_shard();
    ctx.rule = "(A) authenticator over the reference store (contract semantics, call log), MemoryStore, the Option slot and Arc<Mutex<MemoryStore>>: contents of 0-8 credentials over 5 RP IDs (two in a parent/child domain relation, two differing only in letter case) with equal user handles across RPs; assertions and registrations with every allow/exclude-list shape (absent, empty, hits, misses, near misses — half of a held id, a held id plus or minus one byte, the empty id —, ids of another RP, unknown descriptor types); the reference store answers a miss with NoCredentials or with Ok(empty), may fail the first lookup of an assertion, and may gain or lose the named credentials while the user is asked during a registration. (B) contract conformance of every shipped store and lock wrapper on generated save/update/query sequences. (C) the six lock wrappers with another task holding the lock (mutex / write lock / read lock) while a lookup, and through the Arc wrappers an update or a save, is issued: the call may wait but must answer per the contract. Since rounds 7/8: lists of 16-45 entries, other algorithm lists at registration, users present but not verified, per-credential PRF inputs keyed by every held credential of the RP. Non-trivial = (A) at least two RPs populated and a list that names a foreign RP's id, (B) a query whose expected result differs from 'all credentials'; distinct by case / by (store, contents, query).".into();
    ctx.assumptions = vec![
        "lookup contract: result = { c | c.rp_id == rp_id and (ids is None or c.id in ids) } as a set; an empty result may be Ok([]) or NoCredentials".into(),
        "'first credential the store lists' is asserted on the reference store, whose listing order is insertion order".into(),
        "known finding D5 (MemoryStore family ignores rp_id when ids are given) is classified by signature and counted; any other disagreement is a violation".into(),
    ];
    let n = ctx.tier.pick(4_000u32, 2_400_000u32);
    match search(ctx, 5, n, case_a(), check_a) {
        Search::Pass => {}
        Search::Fail(c, msg) => ctx.violation("authenticator", json!(c), &msg),
    }
    let n = ctx.tier.pick(6_000u32, 4_000_000u32);
    match search(ctx, 6, n, case_b(), check_b) {
        Search::Pass => {}
        Search::Fail(c, msg) => ctx.violation("contract", json!(c), &msg),
    }
    let n = ctx.tier.pick(3_000u32, 1_000_000u32);
    match search(ctx, 7, n, case_c(), check_c) {
        Search::Pass => {}
        Search::Fail(c, msg) => ctx.violation("contended", json!(c), &msg),
    }
    // fixed: empty exclude list against populated shipped stores, unknown-typed allow list
    for kind in [Kind::Ref, Kind::Memory, Kind::OptionSlot, Kind::ArcMutexMemory].into_iter().filter(|_| fs) {
        for list in [ListSel::Empty, ListSel::Absent, ListSel::Ids(vec![IdSel::Miss(1, false)]), ListSel::Ids(vec![IdSel::Miss(1, true)]), ListSel::Ids(vec![IdSel::Held(0, false)])] {
            for create in [true, false] {
                let c = CaseA { kind, contents: vec![CredDesc { rp: 0, user: 0, counter: None }], create, rp: 0, list: list.clone(), empty_ok: false, find_fault: None, prompt_change: 0, algs: 0, presence_only: false, prf_keys: 0 };
                if let Err(e) = check_a(ctx, &c) {
                    ctx.violation("authenticator-fixed", json!(c), &e);
                }
            }
        }
    }
}

pub fn replay(ctx: &mut Ctx, stage: &str, case: &Value) -> Result<(), String> {
    if stage.starts_with("contended") {
        let c: CaseC = serde_json::from_value(case.clone()).map_err(|e| format!("bad case: {e}"))?;
        check_c(ctx, &c)
    } else if stage.starts_with("contract") {
        let c: CaseB = serde_json::from_value(case.clone()).map_err(|e| format!("bad case: {e}"))?;
        check_b(ctx, &c)
    } else {
        let c: CaseA = serde_json::from_value(case.clone()).map_err(|e| format!("bad case: {e}"))?;
        check_a(ctx, &c)
    }
}
