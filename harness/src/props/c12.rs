//! C12 — authenticator data binary encoding follows the WebAuthn layout and round-trips.

use std::panic::{catch_unwind, AssertUnwindSafe};

use coset::{iana, CborSerializable, CoseKeyBuilder};
use passkey_types::ctap2::{get_assertion, make_credential, Aaguid, AttestedCredentialData, AuthenticatorData, Flags};
use proptest::prelude::*;
use serde::{Deserialize, Serialize};
use serde_json::{json, Value};

use crate::core::{search, Ctx, Search};
use crate::model::authdata::{self, AT, ED, RESERVED};
use crate::model::util::sha256;

#[derive(Clone, Debug, Serialize, Deserialize, PartialEq, Eq, Hash)]
pub enum Ext {
    None,
    /// make-credential outputs: hmac-secret bool, hmac-secret-mc bytes
    Make(Option<bool>, Option<Vec<u8>>),
    /// assertion outputs: hmac-secret bytes
    Get(Option<Vec<u8>>),
}

#[derive(Clone, Debug, Serialize, Deserialize, PartialEq, Eq, Hash)]
pub struct Case {
    pub rp_id: String,
    pub counter: Option<u32>,
    /// subset of UP|UV|BE|BS passed to set_flags
    pub flags: u8,
    /// Some((aaguid, credential id length, id fill byte, x, y))
    pub att: Option<([u8; 16], usize, u8, Vec<u8>, Vec<u8>)>,
    pub ext: Ext,
    /// order of the EC2 parameters (crv, x, y) inside the COSE key handed to the constructor (0 = as the builder lists them)
    #[serde(default)]
    pub key_order: u8,
    /// a second call of an extension setter after the first one (Ext::None = a setter called with None); which outputs
    /// survive is not modelled, the encoding must be well-formed and round-trip whatever the sequence was
    #[serde(default)]
    pub ext2: Option<Ext>,
}

fn make_key(x: &[u8], y: &[u8], order: u8) -> coset::CoseKey {
    let mut key = CoseKeyBuilder::new_ec2_pub_key(iana::EllipticCurve::P_256, x.to_vec(), y.to_vec()).algorithm(iana::Algorithm::ES256).build();
    // optional members of a COSE_Key: key id (bit 3 of the order byte), key operations (an array inside the key, bit 4)
    if order & 8 != 0 {
        key.key_id = vec![0xC0, 0x5E, order];
    }
    if order & 32 != 0 {
        // the algorithm member of a COSE_Key is optional
        key.alg = None;
    }
    if order & 16 != 0 {
        key.key_ops = [coset::KeyOperation::Assigned(iana::KeyOperation::Verify), coset::KeyOperation::Assigned(iana::KeyOperation::Sign)].into_iter().collect();
    }
    let order = order & 7;
    const PERMS: [[usize; 3]; 6] = [[0, 1, 2], [0, 2, 1], [1, 0, 2], [1, 2, 0], [2, 0, 1], [2, 1, 0]];
    if key.params.len() == 3 {
        let p = PERMS[order as usize % 6];
        key.params = vec![key.params[p[0]].clone(), key.params[p[1]].clone(), key.params[p[2]].clone()];
    }
    key
}

fn cred_id(len: usize, fill: u8) -> Vec<u8> {
    (0..len).map(|i| fill.wrapping_add((i % 251) as u8)).collect()
}

pub fn build(c: &Case) -> Result<AuthenticatorData, String> {
    let mut ad = AuthenticatorData::new(&c.rp_id, c.counter).set_flags(Flags::from_bits(c.flags & 0x1D).unwrap());
    if let Some((aaguid, len, fill, x, y)) = &c.att {
        let key = make_key(x, y, c.key_order);
        let acd = AttestedCredentialData::new(Aaguid::from(*aaguid), cred_id(*len, *fill), key).map_err(|e| format!("constructor refused a {len}-byte credential id: {e}"))?;
        ad = ad.set_attested_credential_data(acd);
    }
    match &c.ext {
        Ext::None => {}
        Ext::Make(a, b) => {
            ad = ad.set_make_credential_extensions(Some(make_credential::SignedExtensionOutputs { hmac_secret: *a, hmac_secret_mc: b.clone().map(Into::into) })).map_err(|e| format!("set_make_credential_extensions: {e:?}"))?;
        }
        Ext::Get(a) => {
            ad = ad.set_assertion_extensions(Some(get_assertion::SignedExtensionOutputs { hmac_secret: a.clone().map(Into::into) })).map_err(|e| format!("set_assertion_extensions: {e:?}"))?;
        }
    }
    match &c.ext2 {
        None => {}
        Some(Ext::None) => {
            ad = if c.flags & 1 == 0 { ad.set_make_credential_extensions(None) } else { ad.set_assertion_extensions(None) }.map_err(|e| format!("extension setter called with None: {e:?}"))?;
        }
        Some(Ext::Make(a, b)) => {
            ad = ad.set_make_credential_extensions(Some(make_credential::SignedExtensionOutputs { hmac_secret: *a, hmac_secret_mc: b.clone().map(Into::into) })).map_err(|e| format!("set_make_credential_extensions (second call): {e:?}"))?;
        }
        Some(Ext::Get(a)) => {
            ad = ad.set_assertion_extensions(Some(get_assertion::SignedExtensionOutputs { hmac_secret: a.clone().map(Into::into) })).map_err(|e| format!("set_assertion_extensions (second call): {e:?}"))?;
        }
    }
    Ok(ad)
}

fn has_ext(c: &Case) -> bool {
    match &c.ext {
        Ext::None => false,
        Ext::Make(a, b) => a.is_some() || b.is_some(),
        Ext::Get(a) => a.is_some(),
    }
}

pub fn check(ctx: &mut Ctx, c: &Case, prefixes: bool) -> Result<(), String> {
    ctx.eval();
    let ad = build(c)?;
    let bytes = catch_unwind(AssertUnwindSafe(|| ad.to_vec())).map_err(|_| format!("to_vec panicked: {}", crate::last_panic()))?;
    // ---- layout, decoded independently
    let v = authdata::decode(&bytes).map_err(|e| format!("the encoding does not follow the layout: {e}"))?;
    if v.rp_id_hash != sha256(c.rp_id.as_bytes()) {
        return Err(format!("bytes 0..32 are not SHA-256 of the RP ID {:?}", c.rp_id));
    }
    if v.flags & RESERVED != 0 {
        return Err("reserved flag bits set".into());
    }
    // the flags handed to set_flags must be there; which other informational bits (BE/BS) the constructor sets by
    // default is not part of the statement
    if v.flags & (c.flags & 0x1D) != c.flags & 0x1D {
        return Err(format!("flag byte 0x{:02X} does not carry the flags that were set (0x{:02X})", v.flags, c.flags & 0x1D));
    }
    if c.flags & 0x05 != v.flags & 0x05 {
        return Err(format!("flag byte 0x{:02X}: UP/UV differ from the flags that were set (0x{:02X})", v.flags, c.flags & 0x1D));
    }
    if (v.flags & AT != 0) != c.att.is_some() {
        return Err(format!("AT bit is {} but attested credential data present = {}", v.flags & AT != 0, c.att.is_some()));
    }
    if (v.flags & ED != 0) != v.ext.is_some() {
        return Err(format!("ED bit is {} but an extension map follows = {}", v.flags & ED != 0, v.ext.is_some()));
    }
    if c.ext2.is_none() && (v.flags & ED != 0) != has_ext(c) {
        return Err(format!("ED bit is {} but extension data present = {}", v.flags & ED != 0, has_ext(c)));
    }
    if v.counter != c.counter.unwrap_or(0) {
        return Err(format!("bytes 33..37 decode to counter {} (big endian), value is {:?}", v.counter, c.counter));
    }
    if let Some((aaguid, len, fill, x, y)) = &c.att {
        let a = v.att.as_ref().ok_or("attested credential data missing")?;
        if a.aaguid != *aaguid {
            return Err("AAGUID bytes differ".into());
        }
        if a.cred_id != cred_id(*len, *fill) {
            return Err(format!("credential id section differs (declared/decoded length {}, expected {len})", a.cred_id.len()));
        }
        let key = make_key(x, y, c.key_order);
        if a.key_raw != key.to_vec().map_err(|e| format!("{e}"))? {
            return Err("COSE key bytes differ from the key's CBOR encoding".into());
        }
        let kx = authdata::map_get_int(&a.key, -2).and_then(|v| v.as_bytes());
        if kx != Some(x) {
            return Err("COSE key x differs".into());
        }
    }
    if has_ext(c) && c.ext2.is_none() {
        let e = v.ext.as_ref().ok_or("extension map missing")?;
        let m = e.as_map().ok_or("extension data is not a CBOR map")?;
        let want: Vec<(&str, bool)> = match &c.ext {
            Ext::Make(a, b) => vec![("hmac-secret", a.is_some()), ("hmac-secret-mc", b.is_some())],
            Ext::Get(a) => vec![("hmac-secret", a.is_some())],
            Ext::None => vec![],
        };
        let want_keys: Vec<&str> = want.iter().filter(|(_, p)| *p).map(|(k, _)| *k).collect();
        let mut got_keys: Vec<&str> = m.iter().filter_map(|(k, _)| k.as_text()).collect();
        got_keys.sort();
        if got_keys.len() != m.len() || got_keys != want_keys {
            return Err(format!("extension map keys {got_keys:?}, expected {want_keys:?}"));
        }
        match &c.ext {
            Ext::Make(a, b) => {
                if let Some(a) = a {
                    if authdata::map_get_text(e, "hmac-secret").and_then(|v| v.as_bool()) != Some(*a) {
                        return Err("hmac-secret output differs".into());
                    }
                }
                if let Some(b) = b {
                    if authdata::map_get_text(e, "hmac-secret-mc").and_then(|v| v.as_bytes()) != Some(b) {
                        return Err("hmac-secret-mc output differs".into());
                    }
                }
            }
            Ext::Get(Some(a)) => {
                if authdata::map_get_text(e, "hmac-secret").and_then(|v| v.as_bytes()) != Some(a) {
                    return Err("hmac-secret output differs".into());
                }
            }
            _ => {}
        }
    }
    if v.trailing != 0 {
        return Err(format!("{} bytes after the last section", v.trailing));
    }
    // ---- round trip
    let back = catch_unwind(AssertUnwindSafe(|| AuthenticatorData::from_slice(&bytes))).map_err(|_| format!("from_slice panicked: {}", crate::last_panic()))?.map_err(|e| format!("from_slice rejects the library's own encoding: {e:?}"))?;
    let mut expect = build(c)?;
    expect.counter = Some(c.counter.unwrap_or(0));
    if back != expect {
        return Err(format!("decoding the encoding does not return an equal value: {back:?} vs {expect:?}").chars().take(600).collect());
    }
    if back.rp_id_hash() != sha256(c.rp_id.as_bytes()) {
        return Err("decoded rp_id_hash differs".into());
    }
    // ---- rejections
    if bytes.len() >= 33 {
        for bit in [0x02u8, 0x20] {
            let mut m = bytes.clone();
            m[32] |= bit;
            if AuthenticatorData::from_slice(&m).is_ok() {
                return Err(format!("an encoding with reserved flag bit 0x{bit:02X} was accepted"));
            }
        }
    }
    if c.att.is_none() && v.ext.is_none() {
        for bit in [AT, ED] {
            let mut m = bytes.clone();
            m[32] |= bit;
            if AuthenticatorData::from_slice(&m).is_ok() {
                return Err(format!("flag 0x{bit:02X} set without its section was accepted"));
            }
        }
    }
    if prefixes {
        let step = if bytes.len() > 600 { bytes.len() / 300 } else { 1 };
        let mut l = 0;
        while l < bytes.len() {
            let r = catch_unwind(AssertUnwindSafe(|| AuthenticatorData::from_slice(&bytes[..l]))).map_err(|_| format!("from_slice panicked on a {l}-byte prefix"))?;
            if r.is_ok() {
                return Err(format!("the strict prefix of {l} of {} bytes was accepted", bytes.len()));
            }
            ctx.eval();
            l += if l < 80 || bytes.len() - l < 120 { 1 } else { step };
        }
        // single byte corruptions: no panic, and whatever decodes re-encodes to something that decodes to itself
        for pos in (0..bytes.len()).step_by(if bytes.len() > 300 { bytes.len() / 150 } else { 1 }) {
            for delta in [0x01u8, 0x80, 0xFF] {
                let mut m = bytes.clone();
                m[pos] ^= delta;
                let r = catch_unwind(AssertUnwindSafe(|| AuthenticatorData::from_slice(&m))).map_err(|_| format!("from_slice panicked on a corrupted encoding (byte {pos} ^ 0x{delta:02X}): {}", crate::last_panic()))?;
                ctx.eval();
                if let Ok(v) = r {
                    if pos == 32 && m[32] & RESERVED != 0 {
                        return Err("reserved flag bits accepted".into());
                    }
                    let again = catch_unwind(AssertUnwindSafe(|| v.to_vec())).map_err(|_| "to_vec panicked on a decoded value".to_string())?;
                    // whatever the library decoded, it must be able to read its own encoding of it. Compared on bytes
                    // (a corrupted payload can parse as a CBOR NaN, unequal to itself), and over a few rounds: the
                    // generic CBOR reader normalises some encodings only on a second pass (a tag-2 bignum written
                    // with an indefinite-length byte string stays a tag, re-encoded with a definite length it becomes
                    // the integer 0), which is neither the library's doing nor covered by the statement
                    let mut cur = again;
                    let mut settled = false;
                    for _round in 0..4 {
                        match catch_unwind(AssertUnwindSafe(|| AuthenticatorData::from_slice(&cur))).map_err(|_| format!("from_slice panicked on the library's own re-encoding (byte {pos} corrupted)"))? {
                            Ok(v2) => {
                                let next = v2.to_vec();
                                if next == cur {
                                    settled = true;
                                    break;
                                }
                                cur = next;
                            }
                            Err(e) => return Err(format!("after corrupting byte {pos} the input decodes, but the library rejects its own encoding of what it decoded: {e:?}")),
                        }
                    }
                    if !settled {
                        ctx.measure("corrupted encodings whose decode/encode does not settle within 4 rounds", 1);
                    }
                }
            }
        }
    }
    let has_ext = |_: &Case| v.ext.is_some();
    if c.ext2.is_some() {
        ctx.class("second extension setter call");
    }
    if c.att.is_some() && c.key_order >= 8 {
        ctx.class("COSE key with key id / key operations / without alg");
    }
    if c.att.is_some() && (c.key_order & 7) % 6 != 0 {
        ctx.class("COSE key parameters not in builder order");
    }
    if c.att.is_some() || has_ext(c) {
        ctx.nontrivial(c);
    }
    ctx.class(match (c.att.is_some(), has_ext(c)) {
        (false, false) => "plain",
        (true, false) => "AT",
        (false, true) => "ED",
        (true, true) => "AT+ED",
    });
    ctx.sample(&format!("{}{}", if c.att.is_some() { "AT" } else { "-" }, if has_ext(c) { "ED" } else { "-" }), || json!({"case": {"rp_id": c.rp_id, "counter": c.counter, "flags": c.flags, "cred_id_len": c.att.as_ref().map(|a| a.1), "ext": c.ext}, "encoded_len": bytes.len()}));
    Ok(())
}

fn case() -> impl Strategy<Value = Case> {
    let rp = prop_oneof![
        4 => "[a-z0-9.-]{0,24}",
        1 => Just("example.com.".to_string()),
        1 => Just("".to_string()),
        1 => "\\PC{0,12}",
        1 => Just("xn--bcher-kva.example".to_string()),
        1 => prop_oneof![Just("mimic:bytes".to_string()), Just("mimic:text".to_string())],
    ];
    let counter = prop_oneof![Just(None), Just(Some(0u32)), Just(Some(1)), Just(Some(0x0102_0304)), Just(Some(u32::MAX)), any::<u32>().prop_map(Some)];
    let len = prop_oneof![
        6 => prop_oneof![Just(0usize), Just(1), Just(15), Just(16), Just(64), Just(255), Just(256), Just(1023), Just(1024), Just(65534), Just(65535)],
        6 => 0usize..200,
        1 => 200usize..70_000,
    ];
    let coord = prop_oneof![4 => proptest::collection::vec(any::<u8>(), 32..=32), 1 => proptest::collection::vec(any::<u8>(), 0..40)];
    let att = proptest::option::weighted(0.6, (any::<[u8; 16]>(), len, any::<u8>(), coord.clone(), coord));
    let ext = prop_oneof![
        3 => Just(Ext::None),
        2 => (proptest::option::of(any::<bool>()), proptest::option::of(proptest::collection::vec(any::<u8>(), 0..70))).prop_map(|(a, b)| Ext::Make(a, b)),
        2 => proptest::option::weighted(0.8, proptest::collection::vec(any::<u8>(), 0..70)).prop_map(Ext::Get),
    ];
    let ext2 = proptest::option::weighted(0.25, ext.clone());
    (rp, counter, any::<u8>(), att, ext, prop_oneof![4 => Just(0u8), 2 => 0u8..6, 2 => 0u8..64], ext2).prop_map(|(rp_id, counter, flags, att, ext, key_order, ext2)| Case { rp_id, counter, flags: flags & 0x1D, att, ext, key_order, ext2 })
}

fn check_any(ctx: &mut Ctx, c: &Case, prefixes: bool) -> Result<(), String> {
    if let Some((_, len, ..)) = &c.att {
        if *len > 65535 {
            ctx.eval();
            ctx.class("constructor-guard");
            ctx.nontrivial(c);
            return match build(c) {
                Err(_) => Ok(()),
                Ok(_) => Err(format!("a credential id of {len} bytes was accepted at construction")),
            };
        }
    }
    // RP IDs chosen so that their hash *looks like* a CBOR head describing the rest of the encoding (a byte / text string
    // of exactly the remaining length): raw authenticator data must not be mistaken for a wrapped one. The RP ID is
    // searched for deterministically (two hash bytes to match: ~65 k attempts).
    if let Some(kind) = c.rp_id.strip_prefix("mimic:") {
        let probe = Case { rp_id: "placeholder.example".into(), ..c.clone() };
        let total = build(&probe)?.to_vec().len();
        if total >= 37 && total - 2 < 256 {
            let head = if kind == "text" { 0x78u8 } else { 0x58 };
            let want = [head, (total - 2) as u8];
            if let Some(rp) = (0..2_000_000u32).map(|n| format!("login-{n}.example.com")).find(|r| sha256(r.as_bytes())[..2] == want) {
                ctx.class("RP ID whose hash mimics a CBOR string head for the rest of the encoding");
                return check(ctx, &Case { rp_id: rp, ..c.clone() }, prefixes);
            }
        }
    }
    check(ctx, c, prefixes)
}

pub fn run(ctx: &mut Ctx) {
    let fs = ctx.first_shard();
    ctx.rule = "values built only with AuthenticatorData::new and the setters: RP IDs (ASCII, Unicode, empty, trailing dot), counters (none, 0, max, random), UP/UV/BE/BS flag sets, AAGUIDs, credential ids of length {0,1,15,16,64,255,256,1023,1024,65534,65535} and random up to 70000 (above 65535: constructor guard), EC2 keys, both extension output types with every optional member; for a subset every strict prefix and single-byte corruptions of the encoding. Non-trivial = AT or ED section present (or the constructor guard); distinct by value.".into();
    ctx.assumptions = vec![
        "AT and ED are controlled by the section setters; set_flags is only given UP/UV/BE/BS (setting AT/ED by hand without a section is outside the statement's 'built with the constructor and setters' and is not generated)".into(),
        "trailing bytes after the last section are not constrained by the statement".into(),
        "corrupted encodings: only 'no panic' and decode/encode/decode fixpoint are asserted (a corruption can yield another valid encoding)".into(),
    ];
    let n = ctx.tier.pick(4_000u32, 2_000_000u32);
    match search(ctx, 12, n, case(), |ctx, c| check_any(ctx, c, false)) {
        Search::Pass => {}
        Search::Fail(c, msg) => ctx.violation("values", json!(c), &msg),
    }
    let n = ctx.tier.pick(300u32, 60_000u32);
    match search(ctx, 13, n, case(), |ctx, c| check_any(ctx, c, true)) {
        Search::Pass => {}
        Search::Fail(c, msg) => ctx.violation("mutations", json!(c), &msg),
    }
    // boundary ids, always
    for len in [0usize, 1, 15, 16, 64, 255, 256, 1023, 1024, 4096, 65534, 65535, 65536, 70000].into_iter().filter(|_| fs) {
        let c = Case { rp_id: "example.com".into(), counter: Some(7), flags: 0x05, att: Some(([9; 16], len, 3, vec![1; 32], vec![2; 32])), ext: Ext::Make(Some(true), None), key_order: 0, ext2: None };
        if let Err(e) = check_any(ctx, &c, false) {
            ctx.violation("boundary", json!(c), &e);
        }
    }
    // inputs shorter than 37 bytes
    for l in 0..37usize {
        ctx.eval();
        if AuthenticatorData::from_slice(&vec![0x18u8; l]).is_ok() {
            ctx.violation("short", json!({"rp_id": "", "len": l}), &format!("{l} bytes accepted"));
        }
    }
}

pub fn replay(ctx: &mut Ctx, stage: &str, case: &Value) -> Result<(), String> {
    let c: Case = serde_json::from_value(case.clone()).map_err(|e| format!("bad case: {e}"))?;
    check_any(ctx, &c, stage != "values")
}

/// valid encodings for the hostile-input engine (C15)
pub fn encoded() -> impl Strategy<Value = Vec<u8>> {
    case().prop_map(|mut c| {
        if let Some(a) = &mut c.att {
            a.1 %= 300;
        }
        build(&c).map(|a| a.to_vec()).unwrap_or_default()
    })
}
