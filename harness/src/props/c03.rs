//! C03 — authentication returns a signature that verifies and is bound to the ceremony.

use proptest::prelude::*;
use serde_json::{json, Value};

use crate::ceremony::{self as cm, History, Op, Oracles, StoreKind};
use crate::core::{search, Ctx, Search};
use crate::rt::Disc;

/// site groups: multi-RP (reference store) and single-RP (shipped stores)
const MULTI: [&[usize]; 4] = [&[0, 2, 3, 1], &[5, 7, 2, 8], &[4, 6, 0, 3, 12], &[9, 10, 4, 1, 11]];
const SINGLE: [&[usize]; 4] = [&[0, 1, 8], &[2], &[5], &[9]];

fn ops(sites: Vec<usize>, max: usize) -> impl Strategy<Value = Vec<Op>> {
    // mostly through the client; some assertions directly at the CTAP2 level (any held credential, also ones whose RP ID
    // the client would never produce)
    proptest::collection::vec(prop_oneof![4 => cm::reg_op(sites.clone()).prop_map(Op::Reg), 6 => cm::auth_op(sites).prop_map(Op::Auth), 1 => (any::<u16>(), proptest::bool::weighted(0.6), any::<bool>()).prop_map(|(target, up, uv)| Op::CtapAuth { target, up, uv, extra_uv: false })], 1..max)
}

fn strategy() -> impl Strategy<Value = History> {
    let multi = (0usize..4).prop_flat_map(|g| {
        let sites = MULTI[g].to_vec();
        let s2 = sites.clone();
        (Just(StoreKind::Ref), prop_oneof![Just(Disc::Full), Just(Disc::ForcedDiscoverable)], cm::auth_cfg(), proptest::collection::vec((any::<u8>(), proptest::option::of(any::<u32>()), any::<bool>()), 0..4), ops(sites, 13))
            // one preload in five is held for an RP ID that only exists at the CTAP2 level (mixed case)
            .prop_map(move |(store, disc, cfg, pre, ops)| History { store, disc, cfg, preload: pre.into_iter().map(|(s, c, u)| (if s % 5 == 4 { 100 + (s as usize / 5) % 2 } else { s2[s as usize % s2.len()] }, c, u)).collect(), ops })
    });
    let single = (0usize..4).prop_flat_map(|g| {
        let sites = SINGLE[g].to_vec();
        let s2 = sites.clone();
        (prop_oneof![2 => Just(StoreKind::Memory), 1 => Just(StoreKind::OptionSlot), 1 => Just(StoreKind::Ref)], Just(Disc::ForcedDiscoverable), cm::auth_cfg(), proptest::collection::vec((any::<u8>(), proptest::option::of(any::<u32>()), any::<bool>()), 0..3), ops(sites, 13))
            .prop_map(move |(store, disc, cfg, pre, ops)| History { store, disc, cfg, preload: pre.into_iter().map(|(s, c, u)| (s2[s as usize % s2.len()], c, u)).collect(), ops })
    });
    // MemoryStore with several RPs (incl. parent/child domains): only absent/empty allow lists, because its lookup by
    // id list ignores the RP (known finding D5 under C05)
    let multi_mem = (0usize..3).prop_flat_map(|g| {
        let sites = [vec![0usize, 6, 1, 8], vec![2usize, 7, 0], vec![5usize, 3, 6]][g].clone();
        let s2 = sites.clone();
        (cm::auth_cfg(), proptest::collection::vec((any::<u8>(), proptest::option::of(any::<u32>()), any::<bool>()), 0..4), ops(sites, 13)).prop_map(move |(cfg, pre, mut ops)| {
            for o in ops.iter_mut() {
                if let Op::Auth(a) = o {
                    if matches!(a.allow, cm::AllowSel::Ids(_)) {
                        a.allow = if a.uv % 2 == 0 { cm::AllowSel::Absent } else { cm::AllowSel::Empty };
                    }
                }
            }
            History { store: StoreKind::Memory, disc: Disc::ForcedDiscoverable, cfg, preload: pre.into_iter().map(|(s, c, u)| (s2[s as usize % s2.len()], c, u)).collect(), ops }
        })
    });
    prop_oneof![3 => multi, 2 => single, 2 => multi_mem]
}

fn check(ctx: &mut Ctx, h: &History) -> Result<(), String> {
    let stats = cm::run_history(h, Oracles { c03: true, ..Default::default() })?;
    ctx.eval();
    ctx.class_n("authentication/success", stats.auth_ok);
    ctx.class_n("authentication/credential-not-found", stats.auth_not_found);
    ctx.class_n("authentication/other-error(measured)", stats.auth_unexpected_err);
    ctx.class_n("registration/success", stats.reg_ok);
    ctx.class(&format!("store/{:?}", h.store));
    let pre = serde_json::to_string(&(&h.store, &h.preload)).unwrap();
    for (i, op) in h.ops.iter().enumerate() {
        if let Op::Auth(a) = op {
            ctx.nontrivial(&(&pre, i, serde_json::to_string(a).unwrap()));
            ctx.class(match &a.allow {
                cm::AllowSel::Absent => "allow/absent",
                cm::AllowSel::Empty => "allow/empty",
                cm::AllowSel::Ids(_) => "allow/ids",
            });
        }
    }
    if stats.auth_unexpected_err > 0 {
        ctx.note("last_unexpected_error", json!(stats.last_error));
    }
    ctx.sample(&format!("history/{:?}", h.store), || json!(h));
    Ok(())
}

// ------------------------------------------------------------------ assertions on records the history engine does not produce

/// A short sequence on one authenticator whose store records are replaced from outside between assertions (re-import,
/// restore, key rotation: same credential id, another key pair), and assertions from another RP's site whose allow list
/// names a held credential (a store outside the lookup contract hands it out: whether it may be used is C05's question,
/// what the assertion then carries is this statement's).
#[derive(Clone, Debug, serde::Serialize, serde::Deserialize, PartialEq, Eq, Hash)]
pub struct Records {
    /// 0 reference store, 1 MemoryStore
    pub store: u8,
    pub counter: bool,
    /// site of the two credentials
    pub site: u8,
    /// (credential 0/1, replace its record by one with this key seed first, ask from this other site instead, uv requirement)
    pub steps: Vec<(u8, Option<u8>, Option<u8>, u8)>,
    /// the records' private scalars start with a zero byte and are written as minimal-length integers (31 bytes or fewer),
    /// the way a foreign encoder may have written an imported key
    #[serde(default)]
    pub short_scalars: bool,
    /// before the steps with these numbers an assertion is attempted on a third held credential whose key the
    /// authenticator cannot use (no alg member / another algorithm): whatever it answers is not judged, what follows is
    #[serde(default)]
    pub unusable_before: Vec<u8>,
}

fn records_strategy() -> impl Strategy<Value = Records> {
    (0u8..2, any::<bool>(), any::<u8>(), proptest::collection::vec((0u8..2, proptest::option::weighted(0.4, any::<u8>()), proptest::option::weighted(0.25, any::<u8>()), any::<u8>()), 1..7))
        .prop_map(|(store, counter, site, steps)| {
            let short_scalars = steps.len() % 3 == 0;
            let unusable_before = if site % 3 == 0 { steps.iter().enumerate().filter(|(_, s)| s.3 % 2 == 0).map(|(i, _)| i as u8).collect() } else { vec![] };
            Records { store, counter, site, steps, short_scalars, unusable_before }
        })
}

pub fn check_records(ctx: &mut Ctx, c: &Records) -> Result<(), String> {
    use crate::ceremony::{AllowSel, AuthOp, CdMode, IdRef, ModelCred, SITES};
    use crate::model::rpid::{HProvider, ProviderKind};
    use crate::model::util::{make_passkey, snap};
    use crate::rt::{block_on, RefStore, ScriptedUv, UvScript};
    use passkey_authenticator::MemoryStore;
    use passkey_client::{Client, DefaultClientData};
    ctx.eval();
    ctx.nontrivial(c);
    let home = c.site as usize % SITES.len();
    let ids: [Vec<u8>; 2] = [b"c03-records-credential-0".to_vec(), b"c03-records-credential-1!".to_vec()];
    let mk = |k: usize, seed: u64| {
        let key_seed = if c.short_scalars { crate::model::util::short_scalar_seeds()[(seed as usize * 2 + k) % 4] } else { 7000 + seed * 2 + k as u64 };
        let mut pk = make_passkey(key_seed, SITES[home].effective, &ids[k], Some(format!("records-user-{k}").as_bytes()), c.counter.then_some(3), None);
        if c.short_scalars {
            crate::model::util::trim_scalar(&mut pk);
        }
        pk
    };
    if c.short_scalars {
        ctx.class("records whose private scalar is shorter than 32 bytes");
    }
    let model_of = |k: usize, pk: &passkey_types::Passkey| {
        let s = snap(pk);
        ModelCred { rp: SITES[home].effective.to_string(), id: ids[k].clone(), x: s.x.unwrap(), y: s.y.unwrap(), user_handle: s.user_handle.clone(), counter: s.counter, assertions: 0, started_near_max: false }
    };
    let first = [mk(0, 0), mk(1, 0)];
    let mut model = vec![model_of(0, &first[0]), model_of(1, &first[1])];
    // a third record whose key cannot be used for signing by this authenticator
    let unusable = {
        let mut pk = make_passkey(7999, SITES[home].effective, b"c03-records-credential-unusable", Some(b"records-user-2"), c.counter.then_some(3), None);
        if c.site % 2 == 0 {
            pk.key.alg = None;
        } else {
            pk.key.alg = Some(coset::RegisteredLabelWithPrivate::Assigned(coset::iana::Algorithm::EdDSA));
        }
        pk
    };
    fn go<S: cm::StoreAccess>(ctx: &mut Ctx, c: &Records, store: S, home: usize, model: &mut Vec<ModelCred>, mk: &dyn Fn(usize, u64) -> passkey_types::Passkey, model_of: &dyn Fn(usize, &passkey_types::Passkey) -> ModelCred, replace: &dyn Fn(&mut S, passkey_types::Passkey)) -> Result<(), String> {
        let uv = ScriptedUv::new(UvScript::verified());
        let auth = crate::cer::build_authenticator(store, uv, &crate::cer::AuthCfg { counter: c.counter, ..Default::default() });
        let mut client = Client::new_with_custom_tld_provider(auth, HProvider::new(ProviderKind::Default)).allows_insecure_localhost(true);
        for (n, (k, rekey, other, uvreq)) in c.steps.iter().enumerate() {
            if c.unusable_before.contains(&(n as u8)) {
                let site = &SITES[home];
                let req = crate::cer::request_options(site.rp, b"records: unusable key", Some(vec![crate::cer::descriptor(b"c03-records-credential-unusable")]), crate::cer::uv_req(*uvreq), None);
                let r = std::panic::catch_unwind(std::panic::AssertUnwindSafe(|| block_on(client.authenticate(site.origin(), req, DefaultClientData)))).map_err(|_| format!("step #{n}: authenticate panicked on a record with an unusable key: {}", crate::last_panic()))?;
                ctx.class(if r.is_ok() { "assertion on a record with an unusable key answered (not judged)" } else { "assertion on a record with an unusable key refused" });
            }
            let k = *k as usize % 2;
            if let Some(seed) = rekey {
                let pk = mk(k, 1 + *seed as u64);
                model[k] = model_of(k, &pk);
                replace(client.authenticator_mut().store_mut(), pk);
                ctx.class("record replaced from outside (same id, another key pair)");
            }
            let site_i = match other {
                Some(o) => *o as usize % SITES.len(),
                None => home,
            };
            let site = &SITES[site_i];
            let foreign = site.effective != SITES[home].effective;
            let op = AuthOp { site: site_i, challenge: format!("records challenge {n}").into_bytes(), allow: AllowSel::Ids(vec![IdRef::Known(k as u16, true)]), cd: CdMode::Default, uv: *uvreq, prf: None };
            let req = crate::cer::request_options(site.rp, &op.challenge, Some(vec![crate::cer::descriptor(&model[k].id)]), crate::cer::uv_req(op.uv), None);
            match block_on(client.authenticate(site.origin(), req, DefaultClientData)) {
                Ok(res) => {
                    // rpIdHash, client data, signature under the key now registered for the id, user handle
                    let mi = cm::verify_assertion_opts(&res, site, &op, model, !foreign).map_err(|e| format!("step #{n}{}: {e}", if foreign { " (asked from another RP's site; the store handed the credential out)" } else { "" }))?;
                    if mi != k {
                        return Err(format!("step #{n}: another credential than the one named was used"));
                    }
                    ctx.class(if foreign { "assertion from another RP's site with a listed credential (binding judged, eligibility is C05's)" } else if rekey.is_some() { "assertion right after the record was replaced" } else { "assertion on a record as held" });
                }
                Err(e) => {
                    // the statement constrains what a successful assertion carries, not when one succeeds
                    let _ = e;
                    ctx.class(if foreign { "foreign-site request refused" } else { "home-site request refused (not judged)" });
                }
            }
        }
        Ok(())
    }
    if c.store % 2 == 0 {
        let store = RefStore::with(Disc::Full, first.iter().cloned().chain([unusable.clone()]).collect());
        go(ctx, c, store, home, &mut model, &mk, &model_of, &|s: &mut RefStore, pk| {
            let mut g = s.0.lock().unwrap();
            g.creds.retain(|p| p.credential_id != pk.credential_id);
            g.creds.push(pk);
        })
    } else {
        let mut store = MemoryStore::new();
        for p in first.iter().chain([&unusable]) {
            store.insert(p.credential_id.to_vec(), p.clone());
        }
        go(ctx, c, store, home, &mut model, &mk, &model_of, &|s: &mut MemoryStore, pk| {
            s.insert(pk.credential_id.to_vec(), pk);
        })
    }
}

pub fn run(ctx: &mut Ctx) {
    ctx.rule = "interleaved histories (up to 12 operations) of registrations and authentications over 2-4 (origin, RP ID) sites and several users, pre-loaded credentials, allow lists (absent, empty, known ids, unknown ids, ids of another RP, unknown descriptor types), challenges, client-data modes and UV requirements; multi-RP histories on the reference store (sites include names below 'localhost'; some pre-loaded credentials are held for mixed-case RP IDs that only a CTAP2-level caller can name), single-RP histories also on MemoryStore and the single-slot Option store; about one operation in eleven is an assertion made directly at the CTAP2 level — with and without the up / uv options, the validation step reporting exactly what was asked — and judged the same way (rpIdHash, signature, user handle). Since rounds 7/8: a 'records' stage (1 500 sequences on two or three pre-loaded records: replaced from outside with another key pair, private scalars shorter than 32 bytes, a record with an unusable key asserted on first, requests from another RP's site naming a held credential — judged for binding, not eligibility). Non-trivial = an authentication that reached the authenticator (success or credential-not-found); distinct by (store, preload, position, request).".into();
    ctx.assumptions = vec![
        "the user always consents (presence and verification reported); consent failures are C04".into(),
        "eligible = credentials registered for the effective RP ID and, for a non-empty allow list, named in it (by id, regardless of descriptor type)".into(),
        "multi-RP histories run on the reference store only (MemoryStore's id lookup ignores the RP: known finding D5 under C05)".into(),
    ];
    let n = ctx.tier.pick(3_000u32, 600_000u32);
    match search(ctx, 3, n, strategy(), check) {
        Search::Pass => {}
        Search::Fail(h, msg) => ctx.violation("histories", json!(h), &msg),
    }
    if ctx.violations.is_empty() {
        let n = ctx.tier.pick(1_500u32, 200_000u32);
        match search(ctx, 31, n, records_strategy(), check_records) {
            Search::Pass => {}
            Search::Fail(c, msg) => ctx.violation("records", json!(c), &msg),
        }
    }
    if ctx.violations.is_empty() && ctx.class_count("authentication/success") == 0 {
        eprintln!("C03: no authentication succeeded - vacuous run ({:?})", ctx.extra.get("last_unexpected_error"));
        std::process::exit(2);
    }
}

pub fn replay(ctx: &mut Ctx, stage: &str, case: &Value) -> Result<(), String> {
    if stage == "records" {
        let c: Records = serde_json::from_value(case.clone()).map_err(|e| format!("bad case: {e}"))?;
        return check_records(ctx, &c);
    }
    let h: History = serde_json::from_value(case.clone()).map_err(|e| format!("bad case: {e}"))?;
    check(ctx, &h)
}
