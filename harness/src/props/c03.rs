//! C03 — authentication returns a signature that verifies and is bound to the ceremony.

use proptest::prelude::*;
use serde_json::{json, Value};

use crate::ceremony::{self as cm, History, Op, Oracles, StoreKind};
use crate::core::{search, Ctx, Search};
use crate::rt::Disc;

/// site groups: multi-RP (reference store) and single-RP (shipped stores)
const MULTI: [&[usize]; 4] = [&[0, 2, 3, 1], &[5, 7, 2, 8], &[4, 6, 0, 3, 12], &[9, 10, 4, 1, 11]];
const SINGLE: [&[usize]; 4] = [&[0, 1, 8], &[2], &[5], &[9]];

fn ops(sites: Vec<usize>, max: usize) -> impl Strategy<Value = Vec<Op>> {
    // mostly through the client; some assertions directly at the CTAP2 level (any held credential, also ones whose RP ID
    // the client would never produce)
    proptest::collection::vec(prop_oneof![4 => cm::reg_op(sites.clone()).prop_map(Op::Reg), 6 => cm::auth_op(sites).prop_map(Op::Auth), 1 => (any::<u16>(), proptest::bool::weighted(0.6), any::<bool>()).prop_map(|(target, up, uv)| Op::CtapAuth { target, up, uv, extra_uv: false })], 1..max)
}

fn strategy() -> impl Strategy<Value = History> {
    let multi = (0usize..4).prop_flat_map(|g| {
        let sites = MULTI[g].to_vec();
        let s2 = sites.clone();
        (Just(StoreKind::Ref), prop_oneof![Just(Disc::Full), Just(Disc::ForcedDiscoverable)], cm::auth_cfg(), proptest::collection::vec((any::<u8>(), proptest::option::of(any::<u32>()), any::<bool>()), 0..4), ops(sites, 13))
            // one preload in five is held for an RP ID that only exists at the CTAP2 level (mixed case)
            .prop_map(move |(store, disc, cfg, pre, ops)| History { store, disc, cfg, preload: pre.into_iter().map(|(s, c, u)| (if s % 5 == 4 { 100 + (s as usize / 5) % 2 } else { s2[s as usize % s2.len()] }, c, u)).collect(), ops })
    });
    let single = (0usize..4).prop_flat_map(|g| {
        let sites = SINGLE[g].to_vec();
        let s2 = sites.clone();
        (prop_oneof![2 => Just(StoreKind::Memory), 1 => Just(StoreKind::OptionSlot), 1 => Just(StoreKind::Ref)], Just(Disc::ForcedDiscoverable), cm::auth_cfg(), proptest::collection::vec((any::<u8>(), proptest::option::of(any::<u32>()), any::<bool>()), 0..3), ops(sites, 13))
            .prop_map(move |(store, disc, cfg, pre, ops)| History { store, disc, cfg, preload: pre.into_iter().map(|(s, c, u)| (s2[s as usize % s2.len()], c, u)).collect(), ops })
    });
    // MemoryStore with several RPs (incl. parent/child domains): only absent/empty allow lists, because its lookup by
    // id list ignores the RP (known finding D5 under C05)
    let multi_mem = (0usize..3).prop_flat_map(|g| {
        let sites = [vec![0usize, 6, 1, 8], vec![2usize, 7, 0], vec![5usize, 3, 6]][g].clone();
        let s2 = sites.clone();
        (cm::auth_cfg(), proptest::collection::vec((any::<u8>(), proptest::option::of(any::<u32>()), any::<bool>()), 0..4), ops(sites, 13)).prop_map(move |(cfg, pre, mut ops)| {
            for o in ops.iter_mut() {
                if let Op::Auth(a) = o {
                    if matches!(a.allow, cm::AllowSel::Ids(_)) {
                        a.allow = if a.uv % 2 == 0 { cm::AllowSel::Absent } else { cm::AllowSel::Empty };
                    }
                }
            }
            History { store: StoreKind::Memory, disc: Disc::ForcedDiscoverable, cfg, preload: pre.into_iter().map(|(s, c, u)| (s2[s as usize % s2.len()], c, u)).collect(), ops }
        })
    });
    prop_oneof![3 => multi, 2 => single, 2 => multi_mem]
}

fn check(ctx: &mut Ctx, h: &History) -> Result<(), String> {
    let stats = cm::run_history(h, Oracles { c03: true, ..Default::default() })?;
    ctx.eval();
    ctx.class_n("authentication/success", stats.auth_ok);
    ctx.class_n("authentication/credential-not-found", stats.auth_not_found);
    ctx.class_n("authentication/other-error(measured)", stats.auth_unexpected_err);
    ctx.class_n("registration/success", stats.reg_ok);
    ctx.class(&format!("store/{:?}", h.store));
    let pre = serde_json::to_string(&(&h.store, &h.preload)).unwrap();
    for (i, op) in h.ops.iter().enumerate() {
        if let Op::Auth(a) = op {
            ctx.nontrivial(&(&pre, i, serde_json::to_string(a).unwrap()));
            ctx.class(match &a.allow {
                cm::AllowSel::Absent => "allow/absent",
                cm::AllowSel::Empty => "allow/empty",
                cm::AllowSel::Ids(_) => "allow/ids",
            });
        }
    }
    if stats.auth_unexpected_err > 0 {
        ctx.note("last_unexpected_error", json!(stats.last_error));
    }
    ctx.sample(&format!("history/{:?}", h.store), || json!(h));
    Ok(())
}

pub fn run(ctx: &mut Ctx) {
    ctx.rule = "interleaved histories (up to 12 operations) of registrations and authentications over 2-4 (origin, RP ID) sites and several users, pre-loaded credentials, allow lists (absent, empty, known ids, unknown ids, ids of another RP, unknown descriptor types), challenges, client-data modes and UV requirements; multi-RP histories on the reference store (sites include names below 'localhost'; some pre-loaded credentials are held for mixed-case RP IDs that only a CTAP2-level caller can name), single-RP histories also on MemoryStore and the single-slot Option store; about one operation in eleven is an assertion made directly at the CTAP2 level — with and without the up / uv options, the validation step reporting exactly what was asked — and judged the same way (rpIdHash, signature, user handle). Non-trivial = an authentication that reached the authenticator (success or credential-not-found); distinct by (store, preload, position, request).".into();
    ctx.assumptions = vec![
        "the user always consents (presence and verification reported); consent failures are C04".into(),
        "eligible = credentials registered for the effective RP ID and, for a non-empty allow list, named in it (by id, regardless of descriptor type)".into(),
        "multi-RP histories run on the reference store only (MemoryStore's id lookup ignores the RP: known finding D5 under C05)".into(),
    ];
    let n = ctx.tier.pick(3_000u32, 600_000u32);
    match search(ctx, 3, n, strategy(), check) {
        Search::Pass => {}
        Search::Fail(h, msg) => ctx.violation("histories", json!(h), &msg),
    }
    if ctx.violations.is_empty() && ctx.class_count("authentication/success") == 0 {
        eprintln!("C03: no authentication succeeded - vacuous run ({:?})", ctx.extra.get("last_unexpected_error"));
        std::process::exit(2);
    }
}

pub fn replay(ctx: &mut Ctx, _stage: &str, case: &Value) -> Result<(), String> {
    let h: History = serde_json::from_value(case.clone()).map_err(|e| format!("bad case: {e}"))?;
    check(ctx, &h)
}
