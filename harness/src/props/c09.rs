//! C09 — PRF results are the specified HMAC, per credential, and gated on verification.

use std::collections::HashMap;

use passkey_client::{Client, DefaultClientData, WebauthnError};
use passkey_types::ctap2::extensions::{AuthenticatorPrfInputs, AuthenticatorPrfValues};
use passkey_types::ctap2::get_assertion;
use passkey_types::webauthn::{AuthenticationExtensionsClientInputs, AuthenticationExtensionsPrfInputs, AuthenticationExtensionsPrfValues};
use passkey_types::Passkey;
use proptest::prelude::*;
use serde::{Deserialize, Serialize};
use serde_json::{json, Value};

use crate::cer::{self, AuthCfg, HmacCfg};
use crate::ceremony::SITES;
use crate::core::{idx, search, Ctx, Search};
use crate::model::authdata::{self, UV};
use crate::model::rpid::{HProvider, ProviderKind};
use crate::model::util::{b64url, hmac_sha256, make_passkey, sha256, snap, PkSnap};
use crate::rt::{block_on, Disc, RefStore, ScriptedUv, StoreCall, UvScript};

#[derive(Clone, Debug, Serialize, Deserialize, PartialEq, Eq, Hash)]
pub struct Vals {
    pub first: Vec<u8>,
    pub second: Option<Vec<u8>>,
}

#[derive(Clone, Debug, Serialize, Deserialize, PartialEq, Eq, Hash)]
pub enum KeySel {
    /// base64url of the id of the k-th held credential
    Cred(u16),
    /// standard base64 with padding of the k-th held credential (still decodable)
    CredStdB64(u16),
    Empty,
    Undecodable(u8),
    /// a well-formed key that names no credential of the allow list
    Unlisted(Vec<u8>),
}

#[derive(Clone, Debug, Serialize, Deserialize, PartialEq, Eq, Hash)]
pub struct PrfIn {
    pub eval: Option<Vals>,
    pub by_cred: Option<Vec<(KeySel, Vals)>>,
}

#[derive(Clone, Debug, Serialize, Deserialize, PartialEq, Eq, Hash)]
pub struct Case {
    pub hmac: HmacCfg,
    pub verified: bool,
    pub uv_req: u8,
    pub register: bool,
    /// held credentials: 0 = no secrets, 1 = gated secret only, 2 = both secrets
    pub creds: Vec<u8>,
    /// allow list as indices into the held credentials; None = absent
    pub allow: Option<Vec<u16>>,
    pub prf: Option<PrfIn>,
    pub hashed: Option<PrfIn>,
    /// run at the CTAP2 level (assertions only; salts are taken from `hashed`)
    pub ctap: bool,
    /// the registration also requests credProps (client level)
    #[serde(default)]
    pub cred_props: bool,
    /// what the user-validation method advertises about verification: 0 configured, 1 present but not configured,
    /// 2 absent -- what it *reports* for a ceremony is `verified` all the same
    #[serde(default)]
    pub uv_cap: u8,
}

const UNDECODABLE: [&str; 5] = ["!!!", "a", "abc def", "ab$d", "====="];

/// credential ids: every odd one extends the id before it (so ids that are prefixes of one another occur in the same
/// store and allow list)
fn cred_id(k: usize) -> Vec<u8> {
    let base = format!("c09-cred-{:03}-0123456", k - k % 2).into_bytes();
    if k % 2 == 0 {
        base
    } else {
        [base.as_slice(), b"-and-a-longer-tail"].concat()
    }
}

/// stored secrets are usually 32 bytes; imported credentials may hold other lengths (HMAC keys longer than a block are
/// hashed first, RFC 2104)
fn secret(tag: &str, k: usize, variant: u8) -> Vec<u8> {
    let h = sha256(format!("{tag}-{k}").as_bytes()).to_vec();
    match (variant / 3, k % 2) {
        (1, 0) => h.repeat(2),                        // 64 bytes: exactly one block
        (1, _) => [h.repeat(2), vec![0x41]].concat(), // 65 bytes
        (2, 0) => h.repeat(3),                        // 96 bytes
        (2, _) => h[..1].to_vec(),
        _ => h,
    }
}

fn held(case: &Case) -> Vec<Passkey> {
    case.creds
        .iter()
        .enumerate()
        .map(|(k, s)| {
            let hm = match s % 3 {
                0 => None,
                1 => Some((secret("gated", k, *s), None)),
                _ => Some((secret("gated", k, *s), Some(secret("plain", k, *s)))),
            };
            make_passkey(900 + k as u64, SITES[0].effective, &cred_id(k), Some(b"user-handle"), None, hm)
        })
        .collect()
}

fn key_string(k: &KeySel, n: usize) -> String {
    match k {
        KeySel::Cred(i) if n > 0 => b64url(&cred_id(idx(*i, n))),
        KeySel::CredStdB64(i) if n > 0 => crate::model::util::b64std_padded(&cred_id(idx(*i, n))),
        KeySel::Cred(_) | KeySel::CredStdB64(_) => b64url(b"no-credential"),
        KeySel::Empty => String::new(),
        KeySel::Undecodable(i) => UNDECODABLE[*i as usize % UNDECODABLE.len()].to_string(),
        KeySel::Unlisted(b) => b64url(&[b"unlisted-".as_slice(), b].concat()),
    }
}

fn to_lib_vals(v: &Vals) -> AuthenticationExtensionsPrfValues {
    AuthenticationExtensionsPrfValues { first: v.first.clone().into(), second: v.second.clone().map(Into::into) }
}

fn to_lib(p: &PrfIn, n: usize) -> AuthenticationExtensionsPrfInputs {
    AuthenticationExtensionsPrfInputs {
        eval: p.eval.as_ref().map(to_lib_vals),
        eval_by_credential: p.by_cred.as_ref().map(|m| m.iter().map(|(k, v)| (key_string(k, n), to_lib_vals(v))).collect::<HashMap<_, _>>()),
    }
}

/// salt of one PRF input value
fn salt(hashed_mode: bool, input: &[u8]) -> Option<[u8; 32]> {
    if hashed_mode {
        input.try_into().ok()
    } else {
        let mut m = b"WebAuthn PRF".to_vec();
        m.push(0);
        m.extend_from_slice(input);
        Some(sha256(&m))
    }
}

#[derive(Debug, PartialEq, Clone, Copy)]
enum Malformed {
    NotSupported,
    Syntax,
    Validation,
}

/// The statement's "malformed request" classes, decided on the concrete request.
fn malformed(case: &Case, eff: &PrfIn, hashed_mode: bool, allow_ids: Option<&[Vec<u8>]>) -> Vec<Malformed> {
    let mut out = vec![];
    let n = case.creds.len();
    if case.register {
        if eff.by_cred.is_some() {
            out.push(Malformed::NotSupported);
        }
    } else if let Some(m) = &eff.by_cred {
        if !m.is_empty() && allow_ids.map_or(true, |a| a.is_empty()) {
            out.push(Malformed::NotSupported);
        }
        for (k, _) in m {
            let s = key_string(k, n);
            // decodable as base64url or base64 (harness-side decoders)
            let decoded = crate::model::util::b64url_decode(s.trim_end_matches('=')).or_else(|| crate::model::util::b64url_decode(&s.trim_end_matches('=').replace('+', "-").replace('/', "_")));
            match decoded {
                None => out.push(Malformed::Syntax),
                Some(b) if b.is_empty() => out.push(Malformed::Syntax),
                Some(b) => {
                    if allow_ids.is_some_and(|a| !a.iter().any(|i| *i == b)) {
                        out.push(Malformed::Syntax);
                    }
                }
            }
        }
    }
    if hashed_mode {
        let bad = |v: &Vals| v.first.len() != 32 || v.second.as_ref().is_some_and(|s| s.len() != 32);
        let by_cred_bad = !case.register && eff.by_cred.as_ref().is_some_and(|m| m.iter().any(|(_, v)| bad(v)));
        if eff.eval.as_ref().is_some_and(bad) || by_cred_bad {
            out.push(Malformed::Validation);
        }
    }
    out.dedup();
    out
}

fn check_result(what: &str, got: &[u8], secrets: &PkSnap, salt: &[u8; 32], uv_flag: bool, must_be_gated_when_verified: bool) -> Result<&'static str, String> {
    let gated = secrets.hmac_uv.as_ref().map(|k| hmac_sha256(k, salt));
    let plain = secrets.hmac_no_uv.as_ref().map(|k| hmac_sha256(k, salt));
    if gated.is_some_and(|g| g.as_slice() == got) {
        if !uv_flag {
            return Err(format!("{what}: the verification-gated secret was used although the user was not verified in this ceremony"));
        }
        return Ok("gated");
    }
    if plain.is_some_and(|p| p.as_slice() == got) {
        if uv_flag && must_be_gated_when_verified {
            return Err(format!("{what}: the user was verified during the assertion but the non-gated secret was used"));
        }
        return Ok("non-gated");
    }
    Err(format!("{what} is not HMAC-SHA-256 of the specified salt under either secret of the credential (result {}, salt {})", crate::core::hex(got), crate::core::hex(salt)))
}

/// drop per-credential entries whose key addresses a target that an earlier entry already addresses
/// (a JSON object / map cannot hold the same key twice)
fn normalize(case: &Case) -> Case {
    let n = case.creds.len();
    let mut c = case.clone();
    for p in [&mut c.prf, &mut c.hashed].into_iter().flatten() {
        if let Some(m) = &mut p.by_cred {
            let mut seen: Vec<String> = vec![];
            m.retain(|(k, _)| {
                let target = match k {
                    KeySel::Cred(i) | KeySel::CredStdB64(i) if n > 0 => format!("cred-{}", idx(*i, n)),
                    other => key_string(other, n),
                };
                if seen.contains(&target) {
                    false
                } else {
                    seen.push(target);
                    true
                }
            });
        }
    }
    c
}

pub fn check(ctx: &mut Ctx, case: &Case) -> Result<(), String> {
    let case = &normalize(case);
    let creds = held(case);
    let n = creds.len();
    let store = RefStore::with(Disc::Full, creds.clone());
    let mut script = if case.verified { UvScript::verified() } else { UvScript::present_only() };
    script.verification_enabled = [Some(true), Some(false), None][case.uv_cap as usize % 3];
    if case.uv_cap % 3 != 0 {
        ctx.class(&format!("verification capability advertised: {:?}, verification reported: {}", script.verification_enabled, case.verified));
    }
    let uv = ScriptedUv::new(script);
    let cfg = AuthCfg { hmac: case.hmac, ..Default::default() };
    let auth = cer::build_authenticator(store.clone(), uv.clone(), &cfg);
    let capability = case.hmac.enabled();
    let site = &SITES[0];
    let allow_ids: Option<Vec<Vec<u8>>> = case.allow.as_ref().map(|a| if n == 0 { vec![] } else { a.iter().map(|i| cred_id(idx(*i, n))).collect() });
    let (eff, hashed_mode) = match (&case.prf, &case.hashed) {
        (Some(p), _) => (Some(p), false),
        (None, Some(h)) => (Some(h), true),
        (None, None) => (None, false),
    };
    ctx.eval();
    ctx.sample(&format!("{}/{:?}", if case.ctap { "ctap-assert" } else if case.register { "register" } else { "assert" }, case.hmac), || json!(case));

    if case.ctap {
        return check_ctap(ctx, case, auth, store, &creds, allow_ids);
    }

    let ext = (case.prf.is_some() || case.hashed.is_some()).then(|| AuthenticationExtensionsClientInputs { cred_props: (case.cred_props && case.register).then_some(true), prf: case.prf.as_ref().map(|p| to_lib(p, n)), prf_already_hashed: case.hashed.as_ref().map(|p| to_lib(p, n)) });
    let mut client = Client::new_with_custom_tld_provider(auth, HProvider::new(ProviderKind::Default));
    let bad = eff.map(|e| malformed(case, e, hashed_mode, allow_ids.as_deref())).unwrap_or_default();
    let reached = |store: &RefStore, uv: &ScriptedUv| -> Option<String> {
        if !uv.calls().is_empty() {
            return Some("check_user was called".into());
        }
        store.log().iter().find(|c| !matches!(c, StoreCall::Info)).map(|c| format!("store call {} was made", c.kind()))
    };
    let uv_requirement = cer::uv_req(case.uv_req);

    if case.register {
        let sel = Some(cer::selection(None, false, uv_requirement));
        let req = cer::creation_options(site.rp, b"c09 challenge", b"user-handle", "u", &[-7], None, sel, ext);
        let res = std::panic::catch_unwind(std::panic::AssertUnwindSafe(|| block_on(client.register(site.origin(), req, DefaultClientData)))).map_err(|_| format!("register panicked: {}", crate::last_panic()))?;
        let after = store.creds();
        if capability && !bad.is_empty() {
            ctx.class("register/malformed");
            ctx.nontrivial(case);
            return expect_rejection(res.map(|_| ()), &bad, reached(&store, &uv), after.len() != n);
        }
        match res {
            Err(e) => {
                ctx.class("register/error");
                if after.len() != n {
                    return Err(format!("registration failed with {e:?} but a credential was stored"));
                }
                Ok(())
            }
            Ok(cred) => {
                let new = after.iter().find(|p| p.credential_id.as_slice() == cred.raw_id.as_slice()).ok_or("new credential not in the store")?;
                let s = snap(new);
                let out = cred.client_extension_results.prf.as_ref();
                if !capability {
                    ctx.class("register/no-capability");
                    if out.is_some() {
                        return Err("an authenticator without the hmac-secret capability produced a PRF output".into());
                    }
                    if s.hmac_uv.is_some() || s.hmac_no_uv.is_some() {
                        return Err("an authenticator without the capability stored PRF secrets".into());
                    }
                    return Ok(());
                }
                let stored = s.hmac_uv.is_some();
                let enabled = out.and_then(|o| o.enabled) == Some(true);
                if stored != enabled {
                    return Err(format!("registration reports enabled={:?} but secrets stored with the credential = {stored}", out.and_then(|o| o.enabled)));
                }
                if stored && case.hmac.without_uv() != s.hmac_no_uv.is_some() {
                    return Err("the stored secrets do not correspond to the authenticator configuration".into());
                }
                let ad = authdata::decode(&cred.response.authenticator_data)?;
                let uv_flag = ad.flags & UV != 0;
                if let (Some(results), Some(e)) = (out.and_then(|o| o.results.as_ref()), eff) {
                    ctx.class("register/with-results");
                    ctx.nontrivial(case);
                    let Some(ev) = &e.eval else { return Err("PRF results at registration without an eval input".into()) };
                    let s1 = salt(hashed_mode, &ev.first).ok_or("unreachable: malformed first")?;
                    let which = check_result("first PRF result at registration", &results.first, &s, &s1, uv_flag, false)?;
                    ctx.class(&format!("register/secret-{which}"));
                    match (&results.second, &ev.second) {
                        (Some(r2), Some(i2)) => {
                            let s2 = salt(hashed_mode, i2).ok_or("unreachable: malformed second")?;
                            check_result("second PRF result at registration", r2, &s, &s2, uv_flag, false)?;
                        }
                        (Some(_), None) => return Err("a second PRF result without a second input".into()),
                        (None, Some(_)) => ctx.measure("omitted_second_results(measured)", 1),
                        (None, None) => {}
                    }
                } else {
                    ctx.class("register/without-results");
                    // an authenticator that evaluates at creation, given default inputs: either the new credential holds the
                    // secret this ceremony needs (a result is due) or it does not (an error is due) -- not a silent success
                    if case.hmac.on_mc() && eff.is_some_and(|e| e.eval.is_some()) {
                        let has_secret = if uv_flag { s.hmac_uv.is_some() } else { s.hmac_no_uv.is_some() };
                        return Err(format!("registration on an authenticator that evaluates PRF inputs at creation succeeded without a result although default inputs were given (user verified: {uv_flag}, the new credential holds the secret such a ceremony uses: {has_secret})"));
                    }
                }
                Ok(())
            }
        }
    } else {
        let allow = allow_ids.as_ref().map(|l| l.iter().map(|i| cer::descriptor(i)).collect::<Vec<_>>());
        let req = cer::request_options(site.rp, b"c09 challenge", allow, uv_requirement, ext);
        let before: Vec<PkSnap> = creds.iter().map(snap).collect();
        let res = std::panic::catch_unwind(std::panic::AssertUnwindSafe(|| block_on(client.authenticate(site.origin(), req, DefaultClientData)))).map_err(|_| format!("authenticate panicked: {}", crate::last_panic()))?;
        if capability && !bad.is_empty() {
            ctx.class("assert/malformed");
            ctx.nontrivial(case);
            return expect_rejection(res.map(|_| ()), &bad, reached(&store, &uv), false);
        }
        match res {
            Err(_) => {
                ctx.class("assert/error");
                Ok(())
            }
            Ok(a) => {
                let out = a.client_extension_results.prf.as_ref();
                if !capability {
                    ctx.class("assert/no-capability");
                    if out.is_some() {
                        return Err("an authenticator without the hmac-secret capability produced a PRF output".into());
                    }
                    return Ok(());
                }
                let used = before.iter().find(|s| s.id.as_slice() == a.raw_id.as_slice()).ok_or("assertion with an unknown credential")?;
                let ad = authdata::decode(&a.response.authenticator_data)?;
                let uv_flag = ad.flags & UV != 0;
                let Some(results) = out.and_then(|o| o.results.as_ref()) else {
                    ctx.class("assert/without-results");
                    // inputs that apply to the credential used, on a credential that holds the secret this ceremony
                    // needs: the statement leaves "a result" or "an error", not a silent success without one
                    let applies = eff.as_ref().is_some_and(|e| {
                        e.eval.is_some() || e.by_cred.as_ref().is_some_and(|m| m.iter().any(|(k, _)| matches!(k, KeySel::Cred(_) | KeySel::CredStdB64(_)) && { let s = key_string(k, n); s == b64url(&used.id) || s == crate::model::util::b64std_padded(&used.id) }))
                    });
                    let has_secret = if uv_flag { used.hmac_uv.is_some() } else { used.hmac_no_uv.is_some() };
                    ctx.class(&format!("assert/without-results/inputs-apply={applies}/credential-has-the-secret={has_secret}"));
                    if applies && has_secret {
                        return Err(format!("the assertion succeeded without a PRF result although inputs apply to the credential used and it holds the {} secret", if uv_flag { "verification-gated" } else { "non-gated" }));
                    }
                    return Ok(());
                };
                let e = eff.ok_or("PRF results without a PRF request")?;
                ctx.class("assert/with-results");
                ctx.nontrivial(case);
                // per-credential inputs take precedence over the default inputs
                let per_cred = e.by_cred.as_ref().and_then(|m| m.iter().find(|(k, _)| matches!(k, KeySel::Cred(_) | KeySel::CredStdB64(_)) && { let s = key_string(k, n); s == b64url(&used.id) || s == crate::model::util::b64std_padded(&used.id) }).map(|(_, v)| v));
                let sel = match (per_cred, &e.eval) {
                    (Some(v), _) => {
                        ctx.class("assert/per-credential-input");
                        v
                    }
                    (None, Some(v)) => v,
                    (None, None) => return Err("PRF results although no input applies to the credential used".into()),
                };
                let s1 = salt(hashed_mode, &sel.first).ok_or("unreachable: malformed first")?;
                // whether the user was verified is what the validation step reported for this ceremony (the UV bit has to agree: C04)
                let verified_now = case.verified;
                if verified_now != uv_flag {
                    ctx.measure("UV bit differs from what the validation step reported (C04's matter)", 1);
                }
                let which = check_result("first PRF result", &results.first, used, &s1, verified_now, true)?;
                ctx.class(&format!("assert/secret-{which}"));
                match (&results.second, &sel.second) {
                    (Some(r2), Some(i2)) => {
                        let s2 = salt(hashed_mode, i2).ok_or("unreachable: malformed second")?;
                        check_result("second PRF result", r2, used, &s2, verified_now, true)?;
                    }
                    (Some(_), None) => return Err("a second PRF result without a second input".into()),
                    (None, Some(_)) => ctx.measure("omitted_second_results(measured)", 1),
                    (None, None) => {}
                }
                Ok(())
            }
        }
    }
}

fn expect_rejection(res: Result<(), WebauthnError>, bad: &[Malformed], reached: Option<String>, stored: bool) -> Result<(), String> {
    let want: Vec<WebauthnError> = bad
        .iter()
        .map(|b| match b {
            Malformed::NotSupported => WebauthnError::NotSupportedError,
            Malformed::Syntax => WebauthnError::SyntaxError,
            Malformed::Validation => WebauthnError::ValidationError,
        })
        .collect();
    match res {
        Ok(()) => Err(format!("a malformed PRF request ({bad:?}) was accepted")),
        Err(e) => {
            if !want.contains(&e) {
                return Err(format!("a malformed PRF request ({bad:?}) was rejected with {e:?}"));
            }
            if let Some(r) = reached {
                return Err(format!("a malformed PRF request ({bad:?}) was rejected with {e:?} only after the authenticator was invoked: {r}"));
            }
            if stored {
                return Err("a malformed PRF request stored a credential".into());
            }
            Ok(())
        }
    }
}

/// CTAP2-level assertion: salts handed to the authenticator directly
fn check_ctap(ctx: &mut Ctx, case: &Case, mut auth: passkey_authenticator::Authenticator<RefStore, ScriptedUv>, _store: RefStore, creds: &[Passkey], allow_ids: Option<Vec<Vec<u8>>>) -> Result<(), String> {
    let n = creds.len();
    let Some(h) = &case.hashed else { return Ok(()) };
    let to32 = |v: &[u8]| -> [u8; 32] { sha256(v) };
    let conv = |v: &Vals| AuthenticatorPrfValues { first: to32(&v.first), second: v.second.as_ref().map(|s| to32(s)) };
    let by_cred: Option<HashMap<passkey_types::Bytes, AuthenticatorPrfValues>> = h.by_cred.as_ref().map(|m| {
        m.iter()
            .filter_map(|(k, v)| match k {
                KeySel::Cred(i) | KeySel::CredStdB64(i) if n > 0 => Some((cred_id(idx(*i, n)).into(), conv(v))),
                KeySel::Unlisted(b) => Some((b.clone().into(), conv(v))),
                _ => None,
            })
            .collect()
    });
    // one CTAP2-level ceremony in four is a registration: extension inputs reach the authenticator whatever getInfo says
    if case.uv_req % 4 == 3 {
        use passkey_types::ctap2::make_credential;
        let before: Vec<Vec<u8>> = _store.creds().iter().map(|p| p.credential_id.to_vec()).collect();
        let req = make_credential::Request {
            client_data_hash: vec![6u8; 32].into(),
            rp: make_credential::PublicKeyCredentialRpEntity { id: SITES[0].effective.into(), name: None },
            user: passkey_types::webauthn::PublicKeyCredentialUserEntity { id: b"c09-ctap-user".to_vec().into(), display_name: "d".into(), name: "n".into() },
            pub_key_cred_params: cer::params(&[-7]),
            exclude_list: None,
            extensions: Some(make_credential::ExtensionInputs { hmac_secret: (case.uv_req & 4 != 0).then_some(true), hmac_secret_mc: None, prf: (case.uv_req & 8 == 0).then(|| AuthenticatorPrfInputs { eval: h.eval.as_ref().map(conv), eval_by_credential: None }) }),
            options: make_credential::Options { rk: false, up: true, uv: case.verified },
            pin_auth: None,
            pin_protocol: None,
        };
        let res = std::panic::catch_unwind(std::panic::AssertUnwindSafe(|| block_on(auth.make_credential(req)))).map_err(|_| format!("make_credential panicked: {}", crate::last_panic()))?;
        let Ok(resp) = res else {
            ctx.class("ctap-register/error");
            return Ok(());
        };
        let new: Vec<Passkey> = _store.creds().into_iter().filter(|p| !before.contains(&p.credential_id.to_vec())).collect();
        let stored_secret = new.first().is_some_and(|p| snap(p).hmac_uv.is_some() || snap(p).hmac_no_uv.is_some());
        let out = resp.unsigned_extension_outputs.as_ref().and_then(|o| o.prf.as_ref());
        ctx.nontrivial(case);
        if !case.hmac.enabled() {
            ctx.class("ctap-register/no-capability");
            if stored_secret {
                return Err("an authenticator without the hmac-secret capability stored a PRF secret with the new credential (CTAP level)".into());
            }
            if out.is_some() {
                return Err("an authenticator without the hmac-secret capability produced a PRF output at registration (CTAP level)".into());
            }
        } else {
            ctx.class("ctap-register/with-capability");
            if let Some(o) = out {
                if o.enabled != stored_secret {
                    return Err(format!("registration reports enabled = {} but secrets stored with the credential = {stored_secret} (CTAP level)", o.enabled));
                }
            }
            let eval_sent = case.uv_req & 8 == 0 && h.eval.is_some();
            if case.hmac.on_mc() && eval_sent && out.map_or(true, |o| o.results.is_none()) {
                let uv_flag = resp.auth_data.to_vec()[32] & UV != 0;
                let has_secret = new.first().is_some_and(|p| if uv_flag { snap(p).hmac_uv.is_some() } else { snap(p).hmac_no_uv.is_some() });
                return Err(format!("CTAP-level registration on an authenticator that evaluates PRF inputs at creation succeeded without a result although default inputs were given (user verified: {uv_flag}, the new credential holds the secret such a ceremony uses: {has_secret})"));
            }
        }
        return Ok(());
    }
    let req = get_assertion::Request {
        rp_id: SITES[0].effective.into(),
        client_data_hash: vec![5u8; 32].into(),
        allow_list: allow_ids.as_ref().map(|l| l.iter().map(|i| cer::descriptor(i)).collect()),
        extensions: Some(get_assertion::ExtensionInputs { hmac_secret: None, prf: Some(AuthenticatorPrfInputs { eval: h.eval.as_ref().map(conv), eval_by_credential: by_cred.clone() }) }),
        options: get_assertion::Options { rk: false, up: true, uv: case.uv_req % 3 != 2 },
        pin_auth: None,
        pin_protocol: None,
    };
    let res = std::panic::catch_unwind(std::panic::AssertUnwindSafe(|| block_on(auth.get_assertion(req)))).map_err(|_| format!("get_assertion panicked: {}", crate::last_panic()))?;
    let Ok(resp) = res else {
        ctx.class("ctap-assert/error");
        return Ok(());
    };
    let out = resp.unsigned_extension_outputs.as_ref().and_then(|o| o.prf.as_ref());
    if !case.hmac.enabled() {
        ctx.class("ctap-assert/no-capability");
        if out.is_some() {
            return Err("an authenticator without the hmac-secret capability produced a PRF output (CTAP level)".into());
        }
        return Ok(());
    }
    let Some(out) = out else {
        ctx.class("ctap-assert/without-results");
        return Ok(());
    };
    ctx.class("ctap-assert/with-results");
    ctx.nontrivial(case);
    let used_id = resp.credential.as_ref().map(|c| c.id.to_vec()).ok_or("no credential")?;
    let used = creds.iter().map(snap).find(|s| s.id == used_id).ok_or("unknown credential")?;
    let flags = resp.auth_data.to_vec()[32];
    let uv_flag = flags & UV != 0;
    let sel = by_cred.as_ref().and_then(|m| m.iter().find(|(k, _)| k.as_slice() == used_id.as_slice()).map(|(_, v)| v.clone())).or(h.eval.as_ref().map(conv)).ok_or("results although no input applies")?;
    let _ = uv_flag;
    let verified_now = case.verified;
    check_result("first PRF result (CTAP)", &out.results.first, &used, &sel.first, verified_now, true)?;
    if let (Some(r2), Some(s2)) = (&out.results.second, &sel.second) {
        check_result("second PRF result (CTAP)", r2, &used, s2, verified_now, true)?;
    } else if out.results.second.is_some() {
        return Err("a second PRF result without a second salt".into());
    }
    Ok(())
}

// ------------------------------------------------------------------ strategy

fn vals(hashed: bool) -> impl Strategy<Value = Vals> {
    let v = move || {
        if hashed {
            prop_oneof![20 => proptest::collection::vec(any::<u8>(), 32..=32), 1 => proptest::collection::vec(any::<u8>(), 0..80)].boxed()
        } else {
            prop_oneof![1 => Just(vec![]), 6 => proptest::collection::vec(any::<u8>(), 0..100), 1 => proptest::collection::vec(any::<u8>(), 32..=32)].boxed()
        }
    };
    (v(), proptest::option::of(v())).prop_map(|(first, second)| Vals { first, second })
}

fn prf_in(hashed: bool, register: bool) -> impl Strategy<Value = PrfIn> {
    let key = prop_oneof![
        16 => any::<u16>().prop_map(KeySel::Cred),
        2 => any::<u16>().prop_map(KeySel::CredStdB64),
        1 => Just(KeySel::Empty),
        1 => any::<u8>().prop_map(KeySel::Undecodable),
        1 => proptest::collection::vec(any::<u8>(), 1..12).prop_map(KeySel::Unlisted),
    ];
    let by = proptest::collection::vec((key, vals(hashed)), 0..4);
    (proptest::option::weighted(0.85, vals(hashed)), proptest::option::weighted(if register { 0.08 } else { 0.5 }, by)).prop_map(|(eval, by_cred)| PrfIn { eval, by_cred })
}

fn strategy() -> impl Strategy<Value = Case> {
    (any::<bool>(), proptest::bool::weighted(0.15)).prop_flat_map(|(register, ctap)| {
        (
            prop_oneof![1 => Just(HmacCfg::None), 2 => Just(HmacCfg::UvOnly), 2 => Just(HmacCfg::UvOnlyMc), 2 => Just(HmacCfg::WithoutUv), 3 => Just(HmacCfg::WithoutUvMc)],
            proptest::bool::weighted(0.6),
            any::<u8>(),
            // per credential: no secret / gated only / both; one in five with secrets of another length than 32 bytes
            proptest::collection::vec(prop_oneof![4 => Just(0u8), 8 => Just(1u8), 12 => Just(2u8), 6 => 4u8..9], 1..5),
            proptest::option::weighted(0.75, proptest::collection::vec(any::<u16>(), 0..4)),
            proptest::option::weighted(0.6, prf_in(false, register)),
            proptest::option::weighted(0.45, prf_in(true, register)),
        )
            .prop_map(move |(hmac, verified, uv_req, creds, allow, prf, hashed)| {
                let cred_props = uv_req % 5 < 2;
                let uv_cap = if creds.len() % 2 == 0 { (uv_req / 5) % 3 } else { 0 };
                Case { hmac, verified, uv_req, register: register && !ctap, creds, allow, prf, hashed, ctap: ctap && !register, cred_props, uv_cap }
            })
    })
}

pub fn run(ctx: &mut Ctx) {
    ctx.rule = "ceremonies (registration / assertion through Client, assertions and registrations also at the CTAP2 level, where extension inputs reach the authenticator whatever it advertises) over authenticator configurations {no hmac-secret, UV-only, UV-only+mc, with non-UV secret, with non-UV secret+mc} x verified/unverified user x UV requirement, stores with 1-4 credentials (some ids are prefixes of others) holding no / gated-only / both secrets (32 bytes, sometimes 1 / 64 / 65 / 96 bytes), PRF inputs of any length (one or two values, eval and evalByCredential with valid, base64, empty, undecodable and unlisted keys, prf / prfAlreadyHashed / both), allow list present or not. Since rounds 7/8: registrations that succeed without a due PRF result are judged, credProps alongside PRF, validation methods that report verification without advertising it. Non-trivial = a ceremony whose PRF result was compared with the oracle, or a malformed request; distinct by case.".into();
    ctx.assumptions = vec![
        "HMAC-SHA-256 is implemented in the harness from SHA-256 (RFC 2104); salts are SHA-256(\"WebAuthn PRF\" || 0x00 || input) or the raw 32 bytes".into(),
        "at registration a verified ceremony may use either secret (the statement demands the gated secret 'always' only for assertions); an unverified one must use the non-gated secret".into(),
        "a missing second output is measured, not failed; malformed classes are decided on the effective input (prf if present, otherwise prfAlreadyHashed)".into(),
        "without the capability only 'no output, no secret' is asserted".into(),
    ];
    let n = ctx.tier.pick(6_000u32, 3_000_000u32);
    match search(ctx, 9, n, strategy(), check) {
        Search::Pass => {}
        Search::Fail(c, msg) => ctx.violation("ceremonies", json!(c), &msg),
    }
    if ctx.violations.is_empty() && ctx.class_count("assert/with-results") == 0 {
        eprintln!("C09: vacuous run");
        std::process::exit(2);
    }
}

pub fn replay(ctx: &mut Ctx, _stage: &str, case: &Value) -> Result<(), String> {
    let c: Case = serde_json::from_value(case.clone()).map_err(|e| format!("bad case: {e}"))?;
    check(ctx, &c)
}
