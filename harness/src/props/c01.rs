//! C01 — RP ID is bound to the origin at a label boundary and is a registrable domain.

use std::panic::{catch_unwind, AssertUnwindSafe};

use passkey_client::{Client, DefaultClientData, Origin, RpIdVerifier, UnverifiedAssetLink, WebauthnError};
use proptest::prelude::*;
use serde::{Deserialize, Serialize};
use serde_json::{json, Value};
use url::{Host, Url};

use crate::cer::{self, AuthCfg};
use crate::core::{idx, search, Ctx, Search};
use crate::model::authdata;
use crate::model::psl::{Psl, RuleKind};
use crate::model::rpid::{HProvider, ProviderKind, SpecEnv};
use crate::model::util::sha256;
use crate::rt::{block_on, Disc, RefStore, ScriptedUv, StoreCall, UvScript};

/// A fully concrete case (what replay files contain).
#[derive(Clone, Debug, Serialize, Deserialize, PartialEq, Eq, Hash)]
pub struct Case {
    /// Some(url string) for a web origin
    pub url: Option<String>,
    /// Some(host) for an Android asset-link origin
    pub android_host: Option<String>,
    pub rp: Option<String>,
    pub allow_localhost: bool,
    pub provider: ProviderKind,
}

const FP: &str = "B3:5B:68:D5:CE:84:50:55:7C:6A:55:FD:64:B5:1F:EA:C1:10:CB:36:D6:A3:52:1C:59:48:DB:3A:38:0A:34:A9";

fn asset_link(host: &str) -> Option<UnverifiedAssetLink<'static>> {
    let url = Url::parse("https://assets.example.com/.well-known/assetlinks.json").unwrap();
    UnverifiedAssetLink::new("com.example.app".to_string(), FP, host.to_string(), url).ok()
}

#[derive(Debug, Clone, PartialEq)]
pub enum Outcome {
    Accepted(String),
    Rejected(String),
    /// the origin could not even be constructed (URL does not parse)
    NoOrigin,
}

/// what the real library says
fn lib_outcome(case: &Case) -> Result<Outcome, String> {
    let provider = HProvider::new(case.provider.clone());
    let verifier = RpIdVerifier::new(provider);
    // the switch is a setter: for half of the "off" cases it is first turned on and then off again
    let toggle = !case.allow_localhost && crate::core::h64(case) % 2 == 0;
    let verifier = if toggle { verifier.allows_insecure_localhost(true).allows_insecure_localhost(false) } else { verifier.allows_insecure_localhost(case.allow_localhost) };
    let origin: Origin = if let Some(u) = &case.url {
        match Url::parse(u) {
            Ok(u) => u.into(),
            Err(_) => return Ok(Outcome::NoOrigin),
        }
    } else {
        match asset_link(case.android_host.as_deref().unwrap_or("")) {
            Some(l) => Origin::Android(l),
            None => return Ok(Outcome::NoOrigin),
        }
    };
    let r = catch_unwind(AssertUnwindSafe(|| verifier.assert_domain(&origin, case.rp.as_deref()).map(|s| s.to_string())));
    match r {
        Ok(Ok(e)) => Ok(Outcome::Accepted(e)),
        Ok(Err(e)) => Ok(Outcome::Rejected(format!("{e:?}"))),
        Err(_) => Err(format!("assert_domain panicked: {}", crate::last_panic())),
    }
}

/// what the statement allows: Some(effective) if the pair may be accepted
fn spec_outcome(psl: &Psl, case: &Case) -> Option<String> {
    let provider = HProvider::new(case.provider.clone());
    let env = SpecEnv { psl, provider: &provider, allow_localhost: case.allow_localhost };
    if let Some(u) = &case.url {
        let url = Url::parse(u).ok()?;
        // "the origin is HTTPS with a DNS host name"
        let host = match url.host() {
            Some(Host::Domain(d)) => d.to_string(),
            _ => return None,
        };
        let secure = url.scheme().eq_ignore_ascii_case("https");
        env.spec(&host, case.rp.as_deref(), secure)
    } else {
        env.spec(case.android_host.as_deref()?, case.rp.as_deref(), true)
    }
}

fn class_of(case: &Case, psl: &Psl) -> String {
    let host = if let Some(u) = &case.url { Url::parse(u).ok().and_then(|u| u.host_str().map(|s| s.to_string())).unwrap_or_default() } else { case.android_host.clone().unwrap_or_default() };
    let kind = if case.url.is_some() { "web" } else { "android" };
    let rpc = match &case.rp {
        None => "absent",
        Some(r) if *r == host => "equal",
        Some(r) if r.is_empty() => "empty",
        Some(r) => match host.strip_suffix(r.as_str()) {
            Some(p) if p.ends_with('.') => {
                if crate::model::rpid::to_ascii(r).is_some_and(|a| !psl.is_registrable(&a)) {
                    "aligned-public-suffix"
                } else {
                    "aligned-suffix"
                }
            }
            Some(_) => "char-suffix-unaligned",
            None => "not-a-suffix",
        },
    };
    format!("{kind}/{rpc}")
}

/// The implication of the statement on one pair.
pub fn check_pair(ctx: &mut Ctx, psl: &Psl, case: &Case) -> Result<(), String> {
    let lib = lib_outcome(case)?;
    let spec = spec_outcome(psl, case);
    ctx.eval();
    let cls = class_of(case, psl);
    match &lib {
        Outcome::NoOrigin => {
            ctx.class("no-origin");
            return Ok(());
        }
        Outcome::Accepted(e) => {
            ctx.class(&format!("{cls}/accepted"));
            ctx.nontrivial(case);
            ctx.sample(&format!("{cls}/accepted"), || json!(case));
            match &spec {
                Some(s) if s == e => {}
                Some(s) => return Err(format!("accepted with effective RP ID {e:?} but the statement yields {s:?} for {case:?}")),
                None => return Err(format!("accepted (effective RP ID {e:?}) although the statement's conditions do not hold: {case:?}")),
            }
        }
        Outcome::Rejected(err) => {
            ctx.class(&format!("{cls}/rejected"));
            if cls.ends_with("char-suffix-unaligned") || cls.ends_with("aligned-public-suffix") {
                ctx.nontrivial(case);
            }
            ctx.sample(&format!("{cls}/rejected"), || json!({"case": case, "error": err}));
            if spec.is_some() {
                ctx.measure("over_rejections(measured, not asserted)", 1);
            }
        }
    }
    // is_valid_rp_id(r) => localhost with the flag, or registrable
    if let Some(rp) = &case.rp {
        let provider = HProvider::new(case.provider.clone());
        let verifier = RpIdVerifier::new(HProvider::new(case.provider.clone())).allows_insecure_localhost(case.allow_localhost);
        let v = catch_unwind(AssertUnwindSafe(|| verifier.is_valid_rp_id(rp))).map_err(|_| format!("is_valid_rp_id panicked on {rp:?}"))?;
        let env = SpecEnv { psl, provider: &provider, allow_localhost: case.allow_localhost };
        if v && !env.valid_rp_id(rp) {
            return Err(format!("is_valid_rp_id({rp:?}) is true but the RP ID is neither localhost-with-flag nor registrable (provider {:?}, localhost flag {})", case.provider, case.allow_localhost));
        }
    }
    Ok(())
}

// ------------------------------------------------------------------ generators

#[derive(Clone, Debug)]
enum HostGen {
    /// fresh labels on top of a list rule
    OnRule { labels: Vec<u16>, rule: u16 },
    /// a list rule itself
    Rule(u16),
    Single(u8),
    Idn { labels: Vec<u16>, rule: u16 },
    Ip(u8),
    Fixed(u8),
    /// a registrable name followed by further labels and another rule ("example.com.evil.net")
    Nested { labels: Vec<u16>, rule: u16, labels2: Vec<u16>, rule2: u16 },
}

#[derive(Clone, Debug)]
enum RpGen {
    Absent,
    Equal,
    /// cut at the i-th label boundary
    LabelCut(u16),
    /// cut at an arbitrary character position
    CharCut(u16),
    PublicSuffix,
    /// "evil" + label-aligned suffix (never a suffix)
    Prefixed(u16),
    Unrelated(u16),
    Empty,
    LeadingDot(u16),
    TrailingDot,
    DoubleDot,
    Upper(u16),
    Rule(u16),
    /// label-aligned window that is not (necessarily) a tail: from the i-th label start to the j-th label end
    Window(u16, u16),
    /// the host with its last characters cut off
    HeadCut(u16),
}

#[derive(Clone, Debug)]
struct PairGen {
    android: bool,
    scheme: u8,
    port: Option<u16>,
    host: HostGen,
    rp: RpGen,
    allow_localhost: bool,
    provider: u8,
    trailing_dot: bool,
}

const LABELS: [&str; 14] = ["www", "example", "evil-example", "a", "my-1password", "login", "x_y", "b2", "evilexample", "foo", "accounts", "xn--85x722f", "xn--bcher-kva", "1password"];
const SCHEMES: [&str; 7] = ["https", "https", "https", "HTTPS", "http", "ftp", "wss"];
const SINGLES: [&str; 5] = ["localhost", "intranet", "xlocalhost", "com", "localhost2"];
const FIXED_HOSTS: [&str; 13] = [
    "example.com.evil.net",
    "accounts.example.com.evil.net",
    "www.example.com",
    "x.localhost",
    "localhost.example.com",
    "evilexample.com",
    "example.com",
    "foo.xn--55qx5d.cn",
    "a.b.c.d.e.example.co.uk",
    "www.ck",
    "x.www.ck",
    "city.kawasaki.jp",
    "evil-localhost",
];
const IPS: [&str; 6] = ["127.0.0.1", "192.168.1.10", "[::1]", "10.0.0.1", "2130706433", "[2001:db8::1]"];

fn pair_strategy() -> impl Strategy<Value = PairGen> {
    let host = prop_oneof![
        5 => (proptest::collection::vec(any::<u16>(), 1..4), any::<u16>()).prop_map(|(labels, rule)| HostGen::OnRule { labels, rule }),
        1 => any::<u16>().prop_map(HostGen::Rule),
        1 => any::<u8>().prop_map(HostGen::Single),
        2 => (proptest::collection::vec(any::<u16>(), 0..3), any::<u16>()).prop_map(|(labels, rule)| HostGen::Idn { labels, rule }),
        1 => any::<u8>().prop_map(HostGen::Ip),
        2 => any::<u8>().prop_map(HostGen::Fixed),
        2 => (proptest::collection::vec(any::<u16>(), 1..3), any::<u16>(), proptest::collection::vec(any::<u16>(), 1..3), any::<u16>())
            .prop_map(|(labels, rule, labels2, rule2)| HostGen::Nested { labels, rule, labels2, rule2 }),
    ];
    let rp = prop_oneof![
        1 => Just(RpGen::Absent),
        1 => Just(RpGen::Equal),
        3 => any::<u16>().prop_map(RpGen::LabelCut),
        4 => any::<u16>().prop_map(RpGen::CharCut),
        2 => Just(RpGen::PublicSuffix),
        1 => any::<u16>().prop_map(RpGen::Prefixed),
        1 => any::<u16>().prop_map(RpGen::Unrelated),
        1 => Just(RpGen::Empty),
        1 => any::<u16>().prop_map(RpGen::LeadingDot),
        1 => Just(RpGen::TrailingDot),
        1 => Just(RpGen::DoubleDot),
        1 => any::<u16>().prop_map(RpGen::Upper),
        1 => any::<u16>().prop_map(RpGen::Rule),
        3 => (any::<u16>(), any::<u16>()).prop_map(|(a, b)| RpGen::Window(a, b)),
        1 => any::<u16>().prop_map(RpGen::HeadCut),
    ];
    (any::<bool>(), any::<u8>(), proptest::option::weighted(0.3, any::<u16>()), host, rp, any::<bool>(), any::<u8>(), proptest::bool::weighted(0.05)).prop_map(|(android, scheme, port, host, rp, allow_localhost, provider, trailing_dot)| PairGen {
        android: android && scheme % 3 == 0,
        scheme,
        port,
        host,
        rp,
        allow_localhost,
        provider,
        trailing_dot,
    })
}

struct Pools {
    rules: Vec<String>,
    idn_rules: Vec<String>,
    idn_unicode: Vec<String>,
}

fn materialize(g: &PairGen, psl: &Psl, pools: &Pools) -> Case {
    let lab = |i: &u16| LABELS[idx(*i, LABELS.len())].to_string();
    let mut host = match &g.host {
        HostGen::OnRule { labels, rule } => {
            let mut v: Vec<String> = labels.iter().map(lab).collect();
            v.push(pools.rules[idx(*rule, pools.rules.len())].clone());
            v.join(".")
        }
        HostGen::Rule(r) => pools.rules[idx(*r, pools.rules.len())].clone(),
        HostGen::Single(i) => SINGLES[*i as usize % SINGLES.len()].to_string(),
        HostGen::Idn { labels, rule } => {
            let mut v: Vec<String> = labels.iter().map(lab).collect();
            if g.android && rule % 2 == 0 {
                v.push(pools.idn_unicode[idx(*rule, pools.idn_unicode.len())].clone());
            } else {
                v.push(pools.idn_rules[idx(*rule, pools.idn_rules.len())].clone());
            }
            v.join(".")
        }
        HostGen::Ip(i) => IPS[*i as usize % IPS.len()].to_string(),
        HostGen::Fixed(i) => FIXED_HOSTS[*i as usize % FIXED_HOSTS.len()].to_string(),
        HostGen::Nested { labels, rule, labels2, rule2 } => {
            let mut v: Vec<String> = labels.iter().map(lab).collect();
            v.push(pools.rules[idx(*rule, pools.rules.len())].clone());
            v.extend(labels2.iter().map(lab));
            v.push(pools.rules[idx(*rule2, pools.rules.len())].clone());
            v.join(".")
        }
    };
    if g.trailing_dot {
        host.push('.');
    }
    // the host as the library will see it (URL parsing lower-cases / normalises)
    let (url, seen_host) = if g.android {
        (None, host.clone())
    } else {
        let scheme = SCHEMES[g.scheme as usize % SCHEMES.len()];
        let port = g.port.map(|p| format!(":{}", p.max(1))).unwrap_or_default();
        let u = format!("{scheme}://{host}{port}");
        let seen = Url::parse(&u).ok().and_then(|u| u.host_str().map(|s| s.to_string())).unwrap_or(host.clone());
        (Some(u), seen)
    };
    let h = seen_host.as_str();
    let boundaries: Vec<usize> = std::iter::once(0).chain(h.match_indices('.').map(|(i, _)| i + 1)).collect();
    let rp = match &g.rp {
        RpGen::Absent => None,
        RpGen::Equal => Some(h.to_string()),
        RpGen::LabelCut(i) => Some(h[boundaries[idx(*i, boundaries.len())]..].to_string()),
        RpGen::CharCut(i) => {
            let mut p = idx(*i, h.len().max(1));
            while !h.is_char_boundary(p) {
                p -= 1;
            }
            Some(h[p..].to_string())
        }
        RpGen::PublicSuffix => match crate::model::rpid::to_ascii(h) {
            Some(a) if !a.is_empty() && !a.split('.').any(|l| l.is_empty()) => {
                let (s, _) = psl.public_suffix(&a);
                // express it as a tail of the host as seen (same number of labels)
                let k = s.split('.').count();
                Some(crate::model::psl::last_labels(h, k).to_string())
            }
            _ => Some("com".into()),
        },
        RpGen::Prefixed(i) => Some(format!("evil{}", &h[boundaries[idx(*i, boundaries.len())]..])),
        RpGen::Unrelated(i) => Some(format!("{}.{}", lab(i), pools.rules[idx(i.wrapping_mul(31), pools.rules.len())])),
        RpGen::Empty => Some(String::new()),
        RpGen::LeadingDot(i) => Some(format!(".{}", &h[boundaries[idx(*i, boundaries.len())]..])),
        RpGen::TrailingDot => Some(format!("{h}.")),
        RpGen::DoubleDot => Some(h.replacen('.', "..", 1)),
        RpGen::Upper(i) => Some(h[boundaries[idx(*i, boundaries.len())]..].to_uppercase()),
        RpGen::Rule(i) => Some(pools.rules[idx(*i, pools.rules.len())].clone()),
        RpGen::Window(a, b) => {
            let ends: Vec<usize> = h.match_indices('.').map(|(i, _)| i).chain(std::iter::once(h.len())).collect();
            let start = boundaries[idx(*a, boundaries.len())];
            let later: Vec<usize> = ends.iter().copied().filter(|e| *e > start).collect();
            match later.is_empty() {
                true => Some(h.to_string()),
                false => Some(h[start..later[idx(*b, later.len())]].to_string()),
            }
        }
        RpGen::HeadCut(i) => {
            let mut p = h.len().saturating_sub(1 + idx(*i, 4.min(h.len().max(1))));
            while !h.is_char_boundary(p) {
                p -= 1;
            }
            Some(h[..p].to_string())
        }
    };
    let provider = match g.provider % 8 {
        0..=3 => ProviderKind::Default,
        4 => if g.provider % 16 < 8 { ProviderKind::AlwaysErr } else { ProviderKind::Failing(g.provider / 16) },
        5 => ProviderKind::TwoLabels,
        _ => {
            // small rule set derived from the host: its last label (and sometimes last two)
            let mut rules = vec![crate::model::psl::last_labels(h, 1).to_string(), "com".into(), "*.ck".into(), "!www.ck".into()];
            if g.provider % 16 > 8 {
                rules.push(crate::model::psl::last_labels(h, 2).to_string());
            }
            rules.retain(|r| !r.is_empty() && !r.ends_with('.'));
            ProviderKind::RuleSet(rules)
        }
    };
    Case { url, android_host: if g.android { Some(host) } else { None }, rp, allow_localhost: g.allow_localhost, provider }
}

// ------------------------------------------------------------------ end-to-end ceremonies

/// Run register (and authenticate) through `Client` with spies. A rejected pair must not reach
/// the authenticator; an accepted pair must use exactly the effective RP ID.
pub fn check_ceremony(ctx: &mut Ctx, psl: &Psl, case: &Case) -> Result<(), String> {
    let spec = spec_outcome(psl, case);
    let store = RefStore::new(Disc::Full);
    let uv = ScriptedUv::new(UvScript::verified());
    let auth = cer::build_authenticator(store.clone(), uv.clone(), &AuthCfg::default());
    let toggle = !case.allow_localhost && crate::core::h64(case) % 2 == 1;
    let client = Client::new_with_custom_tld_provider(auth, HProvider::new(case.provider.clone()));
    let mut client = if toggle { client.allows_insecure_localhost(true).allows_insecure_localhost(false) } else { client.allows_insecure_localhost(case.allow_localhost) };
    let make_origin = || -> Option<Origin<'static>> {
        if let Some(u) = &case.url {
            Url::parse(u).ok().map(Into::into)
        } else {
            asset_link(case.android_host.as_deref().unwrap_or("")).map(Origin::Android)
        }
    };
    let Some(origin) = make_origin() else {
        ctx.class("e2e/no-origin");
        return Ok(());
    };
    ctx.eval();
    let challenge = b"c01-challenge".to_vec();
    let req = cer::creation_options(case.rp.as_deref(), &challenge, b"user-1", "u", &[-7], None, None, None);
    let res = catch_unwind(AssertUnwindSafe(|| block_on(client.register(origin, req, DefaultClientData)))).map_err(|_| format!("register panicked: {}", crate::last_panic()))?;
    let reached = |store: &RefStore, uv: &ScriptedUv| -> Option<String> {
        if !uv.calls().is_empty() {
            return Some("check_user was called".into());
        }
        store.log().iter().find(|c| !matches!(c, StoreCall::Info)).map(|c| format!("store call {} was made", c.kind()))
    };
    match res {
        Err(e) => {
            ctx.class("e2e/register-rejected");
            if spec.is_none() {
                if let Some(what) = reached(&store, &uv) {
                    return Err(format!("the statement rejects this pair, yet the authenticator was reached during registration ({what}); the client answered {e:?}; {case:?}"));
                }
            }
            if matches!(e, WebauthnError::OriginMissingDomain | WebauthnError::OriginRpMissmatch | WebauthnError::UnprotectedOrigin | WebauthnError::InsecureLocalhostNotAllowed | WebauthnError::InvalidRpId) {
                if let Some(what) = reached(&store, &uv) {
                    return Err(format!("pair rejected with {e:?} but the authenticator was reached: {what}; {case:?}"));
                }
            }
            if spec.is_none() && !store.creds().is_empty() {
                return Err(format!("a credential was created for a pair the statement rejects: {case:?}"));
            }
        }
        Ok(cred) => {
            ctx.class("e2e/register-accepted");
            ctx.nontrivial(&("e2e", case));
            let Some(eff) = &spec else {
                return Err(format!("registration succeeded although the statement's conditions do not hold: {case:?}"));
            };
            let saved = store.creds();
            if saved.len() != 1 || saved[0].rp_id != *eff {
                return Err(format!("credential created for RP ID {:?}, expected the effective RP ID {eff:?}; {case:?}", saved.first().map(|c| c.rp_id.clone())));
            }
            for c in store.log() {
                if let StoreCall::Save { rp_arg, .. } = &c {
                    if rp_arg != eff {
                        return Err(format!("store.save received rp {rp_arg:?}, expected {eff:?}"));
                    }
                }
            }
            let ad = authdata::decode(&cred.response.authenticator_data).map_err(|e| format!("authenticator data: {e}"))?;
            if ad.rp_id_hash != sha256(eff.as_bytes()) {
                return Err(format!("rpIdHash is not SHA-256 of the effective RP ID {eff:?}; {case:?}"));
            }
            // now authenticate with the same pair
            store.clear_log();
            let origin = make_origin().unwrap();
            let req = cer::request_options(case.rp.as_deref(), &challenge, None, cer::uv_req(1), None);
            // the statement does not promise that this succeeds, only what a success is bound to
            let res = match block_on(client.authenticate(origin, req, DefaultClientData)) {
                Ok(r) => r,
                Err(_) => {
                    ctx.measure("e2e: authentication with an accepted pair failed", 1);
                    return Ok(());
                }
            };
            let ad = authdata::decode(&res.response.authenticator_data).map_err(|e| format!("authenticator data: {e}"))?;
            if ad.rp_id_hash != sha256(eff.as_bytes()) {
                return Err(format!("assertion rpIdHash is not SHA-256 of the effective RP ID {eff:?}"));
            }
            for c in store.log() {
                if let StoreCall::Find { rp_id, .. } = &c {
                    if rp_id != eff {
                        return Err(format!("store.find received rp {rp_id:?}, expected {eff:?}"));
                    }
                }
            }
            ctx.sample("e2e/accepted", || json!(case));
            return Ok(());
        }
    }
    // rejected registration: the same pair must also be rejected for authentication, against a
    // store that holds a credential for whatever RP ID the request names
    let victim_rp = case.rp.clone().unwrap_or_default();
    let host_rp = if let Some(u) = &case.url { Url::parse(u).ok().and_then(|u| u.host_str().map(|s| s.to_string())).unwrap_or_default() } else { case.android_host.clone().unwrap_or_default() };
    let store2 = RefStore::with(Disc::Full, vec![crate::model::util::make_passkey(7, &victim_rp, b"victim-cred-id-0", Some(b"uh"), None, None), crate::model::util::make_passkey(8, &host_rp, b"victim-cred-id-1", Some(b"uh"), None, None)]);
    let uv2 = ScriptedUv::new(UvScript::verified());
    let auth = cer::build_authenticator(store2.clone(), uv2.clone(), &AuthCfg::default());
    let mut client = Client::new_with_custom_tld_provider(auth, HProvider::new(case.provider.clone())).allows_insecure_localhost(case.allow_localhost);
    let origin = make_origin().unwrap();
    let req = cer::request_options(case.rp.as_deref(), &challenge, None, cer::uv_req(1), None);
    let res = catch_unwind(AssertUnwindSafe(|| block_on(client.authenticate(origin, req, DefaultClientData)))).map_err(|_| format!("authenticate panicked: {}", crate::last_panic()))?;
    if spec.is_none() {
        // the statement rejects this pair: whatever the client answers, the authenticator must not have been reached
        if let Some(what) = reached(&store2, &uv2) {
            return Err(format!("the statement rejects this pair for authentication, yet the authenticator was reached ({what}); the client answered {:?}; {case:?}", res.as_ref().map(|_| "an assertion").map_err(|e| format!("{e:?}"))));
        }
    }
    match res {
        Ok(_) if spec.is_none() => Err(format!("an assertion was produced for a pair the statement rejects: {case:?}")),
        Err(e) if matches!(e, WebauthnError::OriginMissingDomain | WebauthnError::OriginRpMissmatch | WebauthnError::UnprotectedOrigin | WebauthnError::InsecureLocalhostNotAllowed | WebauthnError::InvalidRpId) => match reached(&store2, &uv2) {
            Some(what) => Err(format!("authentication rejected with {e:?} but the authenticator was reached: {what}; {case:?}")),
            None => Ok(()),
        },
        _ => Ok(()),
    }
}

pub fn run(ctx: &mut Ctx) {
    let fs = ctx.first_shard();
    ctx.rule = "pairs are constructed (host class x RP-ID class relative to the host x origin kind x localhost flag x provider); sweep = every rule of the shipped list as RP ID against hosts a.<rule> and <rule> (A-label form; Unicode form on the Android path). Since rounds 7/8: RP IDs that are label-aligned windows of the host (not tails) or the host cut short, hosts that contain a registrable name before further labels, providers failing with each error value. Non-trivial = RP ID present and an unaligned character suffix or public suffix of the host, or the pair was accepted, or the RP ID is a list rule; distinct by the concrete case.".into();
    ctx.assumptions = vec![
        "only the 'accepted => conditions' direction is asserted; rejections of pairs the statement would allow are measured (over_rejections)".into(),
        "Android asset-link hosts are generated in canonical lower case".into(),
        "'registrable' under the default provider is decided by the harness's own PSL implementation over the .dat on the ASCII form of the name; under a custom provider by calling that provider on the ASCII form".into(),
        "an RP ID beginning with '.' counts as beginning at a label boundary (it is then rejected as not registrable by every provider that rejects empty labels)".into(),
    ];
    let psl = match Psl::load() {
        Ok(p) => p,
        Err(e) => {
            eprintln!("{e}");
            std::process::exit(2);
        }
    };
    let inst = |r: &crate::model::psl::Rule, name: &str| match r.kind {
        RuleKind::Wildcard => format!("zq.{name}"),
        _ => name.to_string(),
    };
    let pools = Pools {
        rules: psl.rules.iter().map(|r| inst(r, &r.name)).collect(),
        idn_rules: psl.rules.iter().filter(|r| r.name.contains("xn--")).map(|r| inst(r, &r.name)).collect(),
        idn_unicode: psl.rules.iter().filter(|r| r.name.contains("xn--")).map(|r| inst(r, &r.unicode)).collect(),
    };

    // ---- stage 1: complete sweep over the list rules (first shard only)
    'sweep: for r in psl.rules.iter().filter(|_| fs) {
        let a = inst(r, &r.name);
        let u = inst(r, &r.unicode);
        let mut cases = vec![
            Case { url: Some(format!("https://a.{a}")), android_host: None, rp: Some(a.clone()), allow_localhost: false, provider: ProviderKind::Default },
            Case { url: Some(format!("https://{a}")), android_host: None, rp: None, allow_localhost: true, provider: ProviderKind::Default },
            Case { url: None, android_host: Some(format!("a.{a}")), rp: Some(a.clone()), allow_localhost: false, provider: ProviderKind::Default },
            Case { url: None, android_host: Some(a.clone()), rp: None, allow_localhost: false, provider: ProviderKind::Default },
            // one more label: registrable, must stay accepted-or-rejected consistently with the spec
            Case { url: Some(format!("https://www.a.{a}")), android_host: None, rp: Some(format!("a.{a}")), allow_localhost: false, provider: ProviderKind::Default },
        ];
        if r.kind == RuleKind::Wildcard {
            // the parent of a wildcard rule may itself be a public suffix (wildcard under wildcard)
            cases.push(Case { url: Some(format!("https://a.{}", r.name)), android_host: None, rp: Some(r.name.clone()), allow_localhost: false, provider: ProviderKind::Default });
            cases.push(Case { url: None, android_host: Some(format!("a.b.{}", r.name)), rp: Some(r.name.clone()), allow_localhost: false, provider: ProviderKind::Default });
            cases.push(Case { url: Some(format!("https://{}", r.name)), android_host: None, rp: None, allow_localhost: false, provider: ProviderKind::Default });
        }
        if u != a {
            cases.push(Case { url: None, android_host: Some(format!("a.{u}")), rp: Some(u.clone()), allow_localhost: false, provider: ProviderKind::Default });
            cases.push(Case { url: None, android_host: Some(u.clone()), rp: None, allow_localhost: false, provider: ProviderKind::Default });
            cases.push(Case { url: Some(format!("https://a.{u}")), android_host: None, rp: Some(a.clone()), allow_localhost: false, provider: ProviderKind::Default });
        }
        for c in cases {
            if let Err(e) = check_pair(ctx, &psl, &c) {
                ctx.violation("sweep", json!(c), &e);
                break 'sweep;
            }
        }
    }
    ctx.note("sweep_rules", json!(psl.rules.len()));

    // ---- stage 2: generated pairs
    let n = ctx.tier.pick(60_000u32, 24_000_000u32);
    let (p, q) = (&psl, &pools);
    match search(ctx, 1, n, pair_strategy(), |ctx, g| check_pair(ctx, p, &materialize(g, p, q))) {
        Search::Pass => {}
        Search::Fail(g, msg) => ctx.violation("pairs", json!(materialize(&g, &psl, &pools)), &msg),
    }

    // ---- stage 3: all label / character cuts of a set of interesting hosts (exhaustive per host)
    let hosts: Vec<String> = FIXED_HOSTS.iter().map(|s| s.to_string()).chain(["evil-example.com", "my-1password.com", "xn--85x722f.com", "a_b.example.org", "login.evil-example.co.uk", "xlocalhost", "localhost", "sub.localhost"].iter().map(|s| s.to_string())).collect();
    'cuts: for h in hosts.iter().filter(|_| fs) {
        for cut in 0..=h.len() {
            for (scheme, allow) in [("https", false), ("https", true), ("http", true)] {
                for android in [false, true] {
                    let c = Case {
                        url: if android { None } else { Some(format!("{scheme}://{h}")) },
                        android_host: if android { Some(h.clone()) } else { None },
                        rp: Some(h[cut..].to_string()),
                        allow_localhost: allow,
                        provider: ProviderKind::Default,
                    };
                    if let Err(e) = check_pair(ctx, &psl, &c) {
                        ctx.violation("cuts", json!(c), &e);
                        break 'cuts;
                    }
                }
            }
        }
    }

    // ---- stage 4: end-to-end ceremonies
    let n = ctx.tier.pick(400u32, 200_000u32);
    match search(ctx, 2, n, pair_strategy(), |ctx, g| check_ceremony(ctx, p, &materialize(g, p, q))) {
        Search::Pass => {}
        Search::Fail(g, msg) => ctx.violation("ceremony", json!(materialize(&g, &psl, &pools)), &msg),
    }
    // fixed end-to-end cases around the known defect classes
    for (u, rp) in [("https://evilexample.com", Some("example.com")), ("https://evil-example.com", Some("example.com")), ("https://foo.xn--55qx5d.cn", Some("xn--55qx5d.cn")), ("https://192.168.1.10", None), ("https://www.example.com", Some("example.com")), ("http://localhost:8080", None), ("https://example.co.uk", Some("co.uk"))] {
        for allow in [false, true] {
            if !ctx.first_shard() {
                continue;
            }
            let c = Case { url: Some(u.to_string()), android_host: None, rp: rp.map(|s| s.to_string()), allow_localhost: allow, provider: ProviderKind::Default };
            if let Err(e) = check_ceremony(ctx, &psl, &c) {
                ctx.violation("ceremony-fixed", json!(c), &e);
            }
        }
    }
}

pub fn replay(ctx: &mut Ctx, stage: &str, case: &Value) -> Result<(), String> {
    let c: Case = serde_json::from_value(case.clone()).map_err(|e| format!("bad case: {e}"))?;
    let psl = Psl::load()?;
    if stage.starts_with("ceremony") {
        check_ceremony(ctx, &psl, &c)
    } else {
        check_pair(ctx, &psl, &c)?;
        check_ceremony(ctx, &psl, &c)
    }
}
