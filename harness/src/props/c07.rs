//! C07 — failed or cancelled ceremonies leave the credential store consistent.
//! Fault enumeration: every store call of the fault-free run fails with each status of a set,
//! singly (complete) and in generated combinations; cancellation after every possible number
//! of polls.

use std::collections::BTreeMap;

use passkey_authenticator::U2fApi;
use passkey_types::ctap2::extensions::{AuthenticatorPrfInputs, AuthenticatorPrfValues};
use passkey_types::ctap2::{get_assertion, make_credential};
use passkey_types::u2f::RegisterRequest;
use proptest::prelude::*;
use serde::{Deserialize, Serialize};
use serde_json::{json, Value};

use crate::cer::{self, AuthCfg, HmacCfg};
use crate::core::{search, Ctx, Search};
use crate::model::util::{is_complete_record, make_passkey, sha256, snap, PkSnap};
use crate::rt::{Disc, RefStore, ScriptedUv, StoreCall, Task, UvScript};

const RP: &str = "example.com";
const CODES: [u8; 7] = [0x00, 0x01, 0x2E, 0x28, 0x7F, 0xF2, 0x19];

#[derive(Clone, Debug, Serialize, Deserialize, PartialEq, Eq, Hash)]
pub struct Scenario {
    /// 0 create, 1 assert, 2 U2F register, 3 create through Client, 4 assert through Client
    pub op: u8,
    pub hmac: HmacCfg,
    pub counter_cfg: bool,
    pub disc: Disc,
    pub rk: bool,
    pub up: bool,
    pub uv: bool,
    pub script: UvScript,
    pub algs_supported: bool,
    pub pin_auth: bool,
    /// 0 none, 1 miss, 2 hit (exclude list for create, allow list for assert)
    pub list: u8,
    /// 0 none, 1 one salt, 2 two salts
    pub prf: u8,
    pub cred_counter: Option<u32>,
    pub cred_has_hmac: bool,
    pub store_yields: usize,
    /// an injected status byte 0 is returned as the CTAP1 "success" status value (a store error all the same)
    #[serde(default)]
    pub zero_as_ctap1: bool,
    /// the store's lookups lag behind its writes (they see what was held when the ceremony began) and answer
    /// "nothing found" with Ok(empty list)
    #[serde(default)]
    pub lagging: bool,
}

#[derive(Clone, Debug, Serialize, Deserialize, PartialEq, Eq, Hash)]
pub struct Run {
    pub sc: Scenario,
    /// fallible store call index -> status byte
    pub faults: BTreeMap<usize, u8>,
    /// Some(n): poll n times, then drop the operation
    pub cancel_after: Option<usize>,
}

fn initial(sc: &Scenario) -> Vec<passkey_types::Passkey> {
    let hm = sc.cred_has_hmac.then(|| (sha256(b"gated").to_vec(), sc.hmac.without_uv().then(|| sha256(b"plain").to_vec())));
    vec![make_passkey(41, "other.example.org", b"unrelated-cred-001", Some(b"uh-o"), Some(3), None), make_passkey(42, RP, b"selected-cred-0001", Some(b"uh-s"), sc.cred_counter, hm)]
}

pub struct Observed {
    /// None = cancelled before completion
    pub result: Option<Result<Option<u32>, u8>>,
    pub log: Vec<StoreCall>,
    pub after: Vec<PkSnap>,
    pub polls: usize,
}

/// execute one run on fresh objects
pub fn execute(run: &Run) -> Result<Observed, String> {
    let sc = &run.sc;
    let store = RefStore::with(sc.disc, initial(sc));
    store.set_faults(run.faults.clone());
    store.set_yields(sc.store_yields);
    store.set_zero_as_ctap1_success(sc.zero_as_ctap1);
    if sc.lagging {
        store.set_lagging(true);
        store.set_empty_ok(true);
    }
    let uv = ScriptedUv::new(sc.script.clone());
    let cfg = AuthCfg { counter: sc.counter_cfg, hmac: sc.hmac, ..Default::default() };
    let mut auth = Some(cer::build_authenticator(store.clone(), uv, &cfg));
    let mut client: Option<passkey_client::Client<RefStore, ScriptedUv, crate::model::rpid::HProvider>> = None;
    if sc.op >= 3 {
        client = Some(passkey_client::Client::new_with_custom_tld_provider(auth.take().unwrap(), crate::model::rpid::HProvider::new(crate::model::rpid::ProviderKind::Default)));
    }
    let salts = |n: u8| AuthenticatorPrfInputs { eval: (n > 0).then(|| AuthenticatorPrfValues { first: [7u8; 32], second: (n > 1).then_some([8u8; 32]) }), eval_by_credential: None };
    let pin = sc.pin_auth.then(|| vec![2u8; 16].into());
    let list = |hit_id: &[u8]| match sc.list {
        0 => None,
        1 => Some(vec![cer::descriptor(b"some-other-id")]),
        _ => Some(vec![cer::descriptor(hit_id), cer::descriptor(b"some-other-id")]),
    };
    let limit = run.cancel_after;
    let (result, polls) = {
        let fut: std::pin::Pin<Box<dyn std::future::Future<Output = Result<Option<u32>, u8>> + '_>> = match sc.op {
            0 => {
                let req = make_credential::Request {
                    client_data_hash: vec![1u8; 32].into(),
                    rp: make_credential::PublicKeyCredentialRpEntity { id: RP.into(), name: None },
                    user: passkey_types::webauthn::PublicKeyCredentialUserEntity { id: b"new-user".to_vec().into(), display_name: "d".into(), name: "n".into() },
                    pub_key_cred_params: cer::params(if sc.algs_supported { &[-257, -7] } else { &[-257] }),
                    exclude_list: list(b"selected-cred-0001"),
                    extensions: (sc.prf > 0).then(|| make_credential::ExtensionInputs { hmac_secret: None, hmac_secret_mc: None, prf: Some(salts(sc.prf)) }),
                    options: make_credential::Options { rk: sc.rk, up: sc.up, uv: sc.uv },
                    pin_auth: pin,
                    pin_protocol: None,
                };
                let a = auth.as_mut().unwrap();
                Box::pin(async move { a.make_credential(req).await.map(|r| r.auth_data.counter).map_err(u8::from) })
            }
            1 => {
                let req = get_assertion::Request {
                    rp_id: RP.into(),
                    client_data_hash: vec![1u8; 32].into(),
                    allow_list: list(b"selected-cred-0001"),
                    extensions: (sc.prf > 0).then(|| get_assertion::ExtensionInputs { hmac_secret: None, prf: Some(salts(sc.prf)) }),
                    options: get_assertion::Options { rk: sc.rk, up: sc.up, uv: sc.uv },
                    pin_auth: pin,
                    pin_protocol: None,
                };
                let a = auth.as_mut().unwrap();
                Box::pin(async move { a.get_assertion(req).await.map(|r| Some(u32::from_be_bytes(r.auth_data.to_vec()[33..37].try_into().unwrap()))).map_err(u8::from) })
            }
            2 => {
                let a = auth.as_mut().unwrap();
                Box::pin(async move { U2fApi::register(a, RegisterRequest { challenge: [4u8; 32], application: [5u8; 32] }, b"u2f-key-handle-01").await.map(|_| None).map_err(u8::from) })
            }
            3 => {
                let c = client.as_mut().unwrap();
                let site = &crate::ceremony::SITES[0];
                let uvr = cer::uv_req(if sc.uv { 0 } else { 2 });
                let ext = (sc.prf > 0).then(|| passkey_types::webauthn::AuthenticationExtensionsClientInputs {
                    cred_props: Some(true),
                    prf: Some(passkey_types::webauthn::AuthenticationExtensionsPrfInputs { eval: Some(passkey_types::webauthn::AuthenticationExtensionsPrfValues { first: vec![7u8; 9].into(), second: (sc.prf > 1).then(|| vec![8u8; 3].into()) }), eval_by_credential: None }),
                    prf_already_hashed: None,
                });
                let mut req = cer::creation_options(site.rp, b"c07", b"new-user", "u", if sc.algs_supported { &[-257, -7] } else { &[-257] }, list(b"selected-cred-0001"), Some(cer::selection(None, sc.rk, uvr)), ext);
                // the attestation conveyance preference varies with the scenario (none / indirect / direct / enterprise), and
                // so do hints and the timeout: whatever the client makes of them, an error leaves the store as it was
                {
                    use passkey_types::webauthn::AttestationConveyancePreference as Att;
                    req.public_key.attestation = [Att::None, Att::Indirect, Att::Direct, Att::Enterprise][(sc.store_yields + sc.script.yields * 3 + sc.list as usize + sc.prf as usize) % 4];
                    req.public_key.timeout = [None, Some(0), Some(60_000), Some(u32::MAX)][(sc.store_yields + sc.list as usize) % 4];
                }
                Box::pin(async move {
                    match c.register(site.origin(), req, passkey_client::DefaultClientData).await {
                        Ok(cred) => Ok(crate::model::authdata::decode(&cred.response.authenticator_data).ok().map(|d| d.counter)),
                        Err(passkey_client::WebauthnError::AuthenticatorError(b)) => Err(b),
                        Err(_) => Err(0xFE),
                    }
                })
            }
            _ => {
                let c = client.as_mut().unwrap();
                let site = &crate::ceremony::SITES[0];
                let uvr = cer::uv_req(if sc.uv { 0 } else { 2 });
                let ext = (sc.prf > 0).then(|| passkey_types::webauthn::AuthenticationExtensionsClientInputs {
                    cred_props: None,
                    prf: Some(passkey_types::webauthn::AuthenticationExtensionsPrfInputs { eval: Some(passkey_types::webauthn::AuthenticationExtensionsPrfValues { first: vec![7u8; 9].into(), second: None }), eval_by_credential: None }),
                    prf_already_hashed: None,
                });
                let req = cer::request_options(site.rp, b"c07", list(b"selected-cred-0001"), uvr, ext);
                Box::pin(async move {
                    match c.authenticate(site.origin(), req, passkey_client::DefaultClientData).await {
                        Ok(a) => Ok(crate::model::authdata::decode(&a.response.authenticator_data).ok().map(|d| d.counter)),
                        Err(passkey_client::WebauthnError::AuthenticatorError(b)) => Err(b),
                        Err(passkey_client::WebauthnError::CredentialNotFound) => Err(0x2E),
                        Err(_) => Err(0xFE),
                    }
                })
            }
        };
        let mut task = Task::new(fut);
        let mut out = None;
        loop {
            if let Some(l) = limit {
                if task.polls >= l {
                    break;
                }
            }
            let done = std::panic::catch_unwind(std::panic::AssertUnwindSafe(|| task.poll())).map_err(|_| format!("ceremony panicked: {}", crate::last_panic()))?;
            if done {
                out = task.output.take();
                break;
            }
            if !task.is_runnable() {
                return Err("ceremony is pending but nothing woke it (deadlock)".into());
            }
            if task.polls > 10_000 {
                return Err("ceremony did not finish within 10000 polls".into());
            }
        }
        let polls = task.polls;
        task.cancel();
        (out, polls)
    };
    Ok(Observed { result, log: store.log(), after: store.creds().iter().map(snap).collect(), polls })
}

/// the statement, judged on one run
pub fn judge(run: &Run, o: &Observed) -> Result<(), String> {
    let sc = &run.sc;
    let before: Vec<PkSnap> = initial(sc).iter().map(snap).collect();
    let saves: Vec<&StoreCall> = o.log.iter().filter(|c| matches!(c, StoreCall::Save { .. })).collect();
    let updates: Vec<&StoreCall> = o.log.iter().filter(|c| matches!(c, StoreCall::Update { .. })).collect();
    let injected_write_fault = o.log.iter().any(|c| matches!(c, StoreCall::Save { result: Err(_), .. } | StoreCall::Update { result: Err(_), .. }));
    if injected_write_fault && matches!(o.result, Some(Ok(_))) {
        return Err("the store reported an error while saving/updating but the ceremony returned success".into());
    }
    let new: Vec<&PkSnap> = o.after.iter().filter(|s| !before.iter().any(|b| b.id == s.id)).collect();
    let kept_equal = before.iter().all(|b| o.after.contains(b));
    if sc.op != 1 && sc.op != 4 {
        // registration (CTAP2, U2F or through Client)
        match &o.result {
            Some(Err(e)) => {
                if o.after != before {
                    return Err(format!("registration returned error 0x{e:02X} but the store changed ({} new records, old records intact: {kept_equal})", new.len()));
                }
            }
            None => {
                if !kept_equal || new.len() > 1 || o.after.len() != before.len() + new.len() {
                    return Err(format!("cancelled registration altered existing records or added {} records", new.len()));
                }
                if let Some(n) = new.first() {
                    is_complete_record(n).map_err(|e| format!("cancelled registration left a partial record: {e}"))?;
                }
            }
            Some(Ok(_)) => {
                let ok_save = saves.iter().any(|c| matches!(c, StoreCall::Save { result: Ok(()), .. }));
                if !ok_save {
                    return Err("registration succeeded but the store never accepted a save".into());
                }
                if new.len() != 1 || !kept_equal {
                    return Err(format!("registration succeeded with {} new records (old records intact: {kept_equal})", new.len()));
                }
                is_complete_record(new[0])?;
            }
        }
    } else {
        // assertion: unchanged except the selected credential's counter may have advanced by one
        let sel_before = before.iter().find(|b| b.id == b"selected-cred-0001").unwrap();
        let sel_after = o.after.iter().find(|b| b.id == b"selected-cred-0001").ok_or("the selected credential vanished from the store")?;
        if o.after.len() != before.len() || !o.after.contains(&before[0]) {
            return Err("an assertion altered other records of the store".into());
        }
        let mut expect = sel_before.clone();
        expect.counter = sel_after.counter;
        if &expect != sel_after {
            return Err("an assertion altered fields other than the counter of the selected credential".into());
        }
        let advanced = match (sel_before.counter, sel_after.counter) {
            (a, b) if a == b => false,
            (Some(a), Some(b)) if b == a.saturating_add(1) => true,
            (a, b) => return Err(format!("counter moved from {a:?} to {b:?}")),
        };
        match &o.result {
            Some(Ok(reported)) => {
                if let Some(c) = sel_before.counter {
                    let want = c.saturating_add(1);
                    let accepted = updates.iter().any(|u| matches!(u, StoreCall::Update { counter: Some(v), result: Ok(()), .. } if *v == want));
                    if !accepted {
                        return Err(format!("an assertion was returned although the store never accepted counter {want}"));
                    }
                    if *reported != Some(want) || sel_after.counter != Some(want) {
                        return Err(format!("assertion reports counter {reported:?}, store holds {:?}, expected {want}", sel_after.counter));
                    }
                } else if advanced || !updates.is_empty() {
                    return Err("a credential without counter was updated".into());
                }
            }
            _ => {
                // failed or cancelled: nothing but the counter (+1) may differ -- checked above
            }
        }
    }
    Ok(())
}

fn scenario() -> impl Strategy<Value = Scenario> {
    let script = prop_oneof![
        9 => Just(Ok((true, true))),
        2 => Just(Ok((true, false))),
        2 => Just(Ok((false, false))),
        1 => Just(Ok((false, true))),
        1 => Just(Err(0x27u8)),
    ];
    (
        (0u8..5, prop_oneof![Just(HmacCfg::None), Just(HmacCfg::UvOnly), Just(HmacCfg::UvOnlyMc), Just(HmacCfg::WithoutUvMc)], any::<bool>(), prop_oneof![4 => Just(Disc::Full), 1 => Just(Disc::OnlyNonDiscoverable), 2 => Just(Disc::ForcedDiscoverable)]),
        (proptest::bool::weighted(0.12), proptest::bool::weighted(0.8), any::<bool>(), script, 0usize..3, prop_oneof![6 => Just(Some(true)), 1 => Just(None)]),
        (proptest::bool::weighted(0.9), proptest::bool::weighted(0.05), prop_oneof![2 => Just(0u8), 1 => Just(1u8), 3 => Just(2u8)], 0u8..3, prop_oneof![Just(None), Just(Some(0u32)), Just(Some(41)), Just(Some(u32::MAX))], any::<bool>(), 0usize..3),
    )
        .prop_map(|((op, hmac, counter_cfg, disc), (rk, up, uv, outcome, uv_yields, ve), (algs_supported, pin_auth, list, prf, cred_counter, cred_has_hmac, store_yields))| Scenario {
            op,
            hmac,
            counter_cfg,
            disc,
            rk,
            up,
            uv,
            script: UvScript { presence_enabled: true, verification_enabled: ve, outcome, yields: uv_yields },
            algs_supported,
            pin_auth,
            list,
            prf,
            cred_counter,
            cred_has_hmac,
            store_yields,
            zero_as_ctap1: (store_yields + uv_yields) % 2 == 1,
            lagging: (store_yields + uv_yields * 3 + list as usize + prf as usize) % 4 == 0,
        })
}

/// everything for one scenario: fault-free run, all single faults x codes, all cancellation points
pub fn check_scenario(ctx: &mut Ctx, sc: &Scenario) -> Result<(), String> {
    let base = Run { sc: sc.clone(), faults: BTreeMap::new(), cancel_after: None };
    let o = execute(&base)?;
    ctx.eval();
    judge(&base, &o).map_err(|e| format!("{e} [fault-free run]"))?;
    ctx.class(&format!("{}/fault-free/{}", ["create", "assert", "u2f-register", "client-create", "client-assert"][sc.op as usize % 5], if matches!(o.result, Some(Ok(_))) { "ok" } else { "err" }));
    let fallible = o.log.iter().filter(|c| !matches!(c, StoreCall::Info)).count();
    let total_polls = o.polls;
    for i in 0..fallible {
        for code in CODES {
            let run = Run { sc: sc.clone(), faults: BTreeMap::from([(i, code)]), cancel_after: None };
            let o = execute(&run)?;
            ctx.eval();
            ctx.nontrivial(&run);
            let kind = o.log.iter().filter(|c| !matches!(c, StoreCall::Info)).nth(i).map(|c| c.kind()).unwrap_or("?");
            ctx.class(&format!("fault/{kind}"));
            judge(&run, &o).map_err(|e| format!("{e} [fault 0x{code:02X} injected into store call #{i} ({kind})] run={}", serde_json::to_string(&run).unwrap()))?;
        }
    }
    for n in 0..total_polls {
        let run = Run { sc: sc.clone(), faults: BTreeMap::new(), cancel_after: Some(n) };
        let o = execute(&run)?;
        ctx.eval();
        ctx.nontrivial(&run);
        ctx.class("cancel");
        judge(&run, &o).map_err(|e| format!("{e} [operation dropped after {n} of {total_polls} polls] run={}", serde_json::to_string(&run).unwrap()))?;
    }
    ctx.sample(&format!("scenario/op{}", sc.op), || json!({"scenario": sc, "fallible_store_calls": fallible, "polls": total_polls}));
    Ok(())
}

// ------------------------------------------------------------------ shipped stores: ceremonies that fail by themselves

/// operations on an authenticator over a shipped store; failures come from the requests themselves (a refused user,
/// an excluded credential, an unsupported algorithm, a PRF request the credential cannot serve, a key handle
/// that is registered again) rather than from an injected store fault
#[derive(Clone, Debug, Serialize, Deserialize, PartialEq, Eq, Hash)]
pub enum SOp {
    U2fRegister { handle: u8, app: u8 },
    Create { exclude_hit: bool, alg_supported: bool, deny: bool, rk: bool },
    Assert {
        target: u8,
        prf: bool,
        deny: bool,
        /// shared map only: another party removes the selected credential from the store while the user is being asked
        #[serde(default)]
        removed_during_prompt: bool,
        /// shared map only: another party uses the selected credential this many times (its stored counter advances by
        /// that much) while the user is being asked
        #[serde(default)]
        advanced_during_prompt: u8,
    },
}

#[derive(Clone, Debug, Serialize, Deserialize, PartialEq, Eq, Hash)]
pub struct Shipped {
    /// 0 MemoryStore, 1 Option slot, 2 Arc<Mutex<MemoryStore>> (a second handle can change it during a ceremony)
    pub store: u8,
    pub counter_cfg: bool,
    pub hmac: HmacCfg,
    pub ops: Vec<SOp>,
}

fn same_but_counter(a: &PkSnap, b: &PkSnap) -> bool {
    let mut b2 = b.clone();
    b2.counter = a.counter;
    *a == b2
}

/// (credential id, 0 = remove the record / k = advance its counter by k)
type Remover = std::sync::Arc<dyn Fn(&[u8], u32) + Send + Sync>;

fn run_shipped<S: crate::ceremony::StoreAccess>(ctx: &mut Ctx, store: S, single_slot: bool, c: &Shipped, remover: Option<Remover>) -> Result<(), String> {
    let uv = ScriptedUv::new(UvScript::verified());
    let mut auth = cer::build_authenticator(store, uv.clone(), &AuthCfg { counter: c.counter_cfg, hmac: c.hmac, ..Default::default() });
    let mut sorted = |v: Vec<PkSnap>| {
        let mut v = v;
        v.sort_by(|a, b| (&a.id, &a.rp_id).cmp(&(&b.id, &b.rp_id)));
        v
    };
    for (i, op) in c.ops.iter().enumerate() {
        let before = sorted(auth.store().snapshot());
        ctx.eval();
        match op {
            SOp::U2fRegister { handle, app } => {
                // a pool of five key handles (so they repeat), two of them longer than the one-byte length field of the response
                let handle: Vec<u8> = match handle % 5 {
                    3 => [b"c07-long-key-handle-".as_slice(), &[0x4b; 236]].concat(),
                    4 => [b"c07-longer-key-handle-".as_slice(), &[0x4c; 700]].concat(),
                    k => format!("c07-key-handle-{k}").into_bytes(),
                };
                let application = sha256(&[b"c07-app-", &[app % 2][..]].concat());
                let res = crate::rt::block_on(U2fApi::register(&mut auth, RegisterRequest { challenge: [7; 32], application }, &handle));
                let after = sorted(auth.store().snapshot());
                let again = before.iter().any(|p| p.id == handle);
                ctx.class(&format!("shipped/u2f-register/{}{}", if res.is_ok() { "ok" } else { "err" }, if again { "/handle-registered-before" } else { "" }));
                match res {
                    Err(e) => {
                        if after != before {
                            return Err(format!("op #{i}: U2F registration failed with {e:?} but the store changed (a key handle registered before: {again})"));
                        }
                    }
                    Ok(resp) => {
                        let new: Vec<&PkSnap> = after.iter().filter(|a| !before.contains(a)).collect();
                        let gone: Vec<&PkSnap> = before.iter().filter(|b| !after.contains(b)).collect();
                        if new.len() != 1 || new[0].id != handle || is_complete_record(new[0]).is_err() {
                            return Err(format!("op #{i}: a successful U2F registration must leave exactly one complete new record for the key handle: {} new records", new.len()));
                        }
                        if new[0].x.as_deref() != Some(&resp.public_key.x[..]) || new[0].y.as_deref() != Some(&resp.public_key.y[..]) {
                            return Err(format!("op #{i}: the record stored by a successful U2F registration does not hold the returned key"));
                        }
                        if !single_slot && gone.iter().any(|g| g.id != handle) {
                            return Err(format!("op #{i}: a U2F registration removed or altered a record of another key handle"));
                        }
                    }
                }
            }
            SOp::Create { exclude_hit, alg_supported, deny, rk } => {
                uv.set(if *deny { UvScript { outcome: Err(0x27), ..UvScript::verified() } } else { UvScript::verified() });
                let exclude = exclude_hit.then(|| before.iter().filter(|p| p.rp_id == RP).map(|p| cer::descriptor(&p.id)).take(2).collect::<Vec<_>>());
                let req = make_credential::Request {
                    client_data_hash: vec![5u8; 32].into(),
                    rp: make_credential::PublicKeyCredentialRpEntity { id: RP.into(), name: None },
                    user: passkey_types::webauthn::PublicKeyCredentialUserEntity { id: b"c07-user".to_vec().into(), display_name: "d".into(), name: "n".into() },
                    pub_key_cred_params: cer::params(if *alg_supported { &[-7] } else { &[-257] }),
                    exclude_list: exclude.filter(|l| !l.is_empty()),
                    extensions: None,
                    options: make_credential::Options { rk: *rk, up: true, uv: true },
                    pin_auth: None,
                    pin_protocol: None,
                };
                let res = crate::rt::block_on(auth.make_credential(req));
                let after = sorted(auth.store().snapshot());
                ctx.class(&format!("shipped/create/{}", if res.is_ok() { "ok" } else { "err" }));
                match res {
                    Err(e) => {
                        if after != before {
                            return Err(format!("op #{i}: registration failed with 0x{:02X} but the store changed", u8::from(e)));
                        }
                    }
                    Ok(_) => {
                        let new: Vec<&PkSnap> = after.iter().filter(|a| !before.contains(a)).collect();
                        if new.len() != 1 || is_complete_record(new[0]).is_err() {
                            return Err(format!("op #{i}: a successful registration must add exactly one complete record, found {}", new.len()));
                        }
                        if !single_slot && before.iter().any(|b| !after.contains(b)) {
                            return Err(format!("op #{i}: a registration removed or altered an existing record"));
                        }
                    }
                }
            }
            SOp::Assert { target, prf, deny, removed_during_prompt, advanced_during_prompt } => {
                uv.set(if *deny { UvScript { outcome: Err(0x27), ..UvScript::verified() } } else { UvScript::verified() });
                let mine: Vec<&PkSnap> = before.iter().filter(|p| p.rp_id == RP).collect();
                let allow = (!mine.is_empty()).then(|| vec![cer::descriptor(&mine[*target as usize % mine.len()].id)]);
                if let (true, Some(rm), Some(sel)) = (*removed_during_prompt || *advanced_during_prompt > 0, &remover, mine.get(*target as usize % mine.len().max(1))) {
                    // the credential disappears while the user is asked: the assertion may fail, or succeed and thereby
                    // write the record back; it may not succeed with a counter the store does not hold afterwards
                    let (rm, id) = (rm.clone(), sel.id.clone());
                    let id2 = id.clone();
                    let how = if *removed_during_prompt { 0 } else { *advanced_during_prompt as u32 % 5 };
                    uv.on_next_check(move || rm(&id2, how));
                    let ext = prf.then(|| get_assertion::ExtensionInputs { hmac_secret: None, prf: Some(AuthenticatorPrfInputs { eval: Some(AuthenticatorPrfValues { first: [3u8; 32], second: None }), eval_by_credential: None }) });
                    let req = get_assertion::Request { rp_id: RP.into(), client_data_hash: vec![6u8; 32].into(), allow_list: allow, extensions: ext, options: get_assertion::Options { rk: false, up: true, uv: true }, pin_auth: None, pin_protocol: None };
                    let res = crate::rt::block_on(auth.get_assertion(req));
                    let after = sorted(auth.store().snapshot());
                    ctx.class(&format!("shipped/assert-while-the-credential-is-{}/{}", if how == 0 { "removed".to_string() } else { format!("used {how}x elsewhere") }, if res.is_ok() { "ok" } else { "err" }));
                    if let (Ok(r), Some(_)) = (&res, sel.counter) {
                        let reported = u32::from_be_bytes(r.auth_data.to_vec()[33..37].try_into().unwrap());
                        let held = after.iter().find(|p| p.id == id).and_then(|p| p.counter);
                        if held != Some(reported) {
                            return Err(format!("op #{i}: an assertion was returned with counter {reported} but the store holds {held:?} for that credential (it was {} while the user was asked)", if how == 0 { "removed".to_string() } else { format!("used {how} times by another party") }));
                        }
                    }
                    if after.iter().any(|a| a.id != id && !before.contains(a)) || before.iter().any(|b| b.id != id && !after.contains(b)) {
                        return Err(format!("op #{i}: an authentication changed a record other than the selected one"));
                    }
                    continue;
                }
                let ext = prf.then(|| get_assertion::ExtensionInputs { hmac_secret: None, prf: Some(AuthenticatorPrfInputs { eval: Some(AuthenticatorPrfValues { first: [3u8; 32], second: None }), eval_by_credential: None }) });
                let req = get_assertion::Request { rp_id: RP.into(), client_data_hash: vec![6u8; 32].into(), allow_list: allow, extensions: ext, options: get_assertion::Options { rk: false, up: true, uv: true }, pin_auth: None, pin_protocol: None };
                let res = crate::rt::block_on(auth.get_assertion(req));
                let after = sorted(auth.store().snapshot());
                ctx.class(&format!("shipped/assert/{}", if res.is_ok() { "ok" } else { "err" }));
                if after.len() != before.len() {
                    return Err(format!("op #{i}: an authentication changed the number of records"));
                }
                let changed: Vec<(&PkSnap, &PkSnap)> = before.iter().zip(after.iter()).filter(|(b, a)| b != a).collect();
                if changed.len() > 1 {
                    return Err(format!("op #{i}: an authentication changed {} records", changed.len()));
                }
                if let Some((b, a)) = changed.first() {
                    let advanced = match (b.counter, a.counter) {
                        (Some(x), Some(y)) => y == x.saturating_add(1),
                        _ => false,
                    };
                    if !same_but_counter(b, a) || !advanced {
                        return Err(format!("op #{i}: an authentication ({}) altered a stored record beyond advancing its counter by one: counter {:?} -> {:?}, other fields equal = {}", if res.is_ok() { "successful" } else { "failed" }, b.counter, a.counter, same_but_counter(b, a)));
                    }
                }
            }
        }
    }
    ctx.nontrivial(c);
    Ok(())
}

pub fn check_shipped(ctx: &mut Ctx, c: &Shipped) -> Result<(), String> {
    ctx.sample(&format!("shipped/store{}", c.store % 3), || json!(c));
    match c.store % 3 {
        0 => run_shipped(ctx, passkey_authenticator::MemoryStore::new(), false, c, None),
        1 => run_shipped(ctx, None::<passkey_types::Passkey>, true, c, None),
        _ => {
            let shared = std::sync::Arc::new(tokio::sync::Mutex::new(passkey_authenticator::MemoryStore::new()));
            let s2 = shared.clone();
            let remover: Remover = std::sync::Arc::new(move |id: &[u8], how: u32| {
                let mut g = s2.try_lock().expect("the store is not locked while the user is asked");
                if how == 0 {
                    g.remove(id);
                } else if let Some(p) = g.get_mut(id) {
                    p.counter = p.counter.map(|c| c.saturating_add(how));
                }
            });
            run_shipped(ctx, shared, false, c, Some(remover))
        }
    }
}

fn shipped() -> impl Strategy<Value = Shipped> {
    let op = prop_oneof![
        3 => (any::<u8>(), any::<u8>()).prop_map(|(handle, app)| SOp::U2fRegister { handle, app }),
        3 => (proptest::bool::weighted(0.3), proptest::bool::weighted(0.8), proptest::bool::weighted(0.15), any::<bool>()).prop_map(|(exclude_hit, alg_supported, deny, rk)| SOp::Create { exclude_hit, alg_supported, deny, rk }),
        4 => (any::<u8>(), proptest::bool::weighted(0.4), proptest::bool::weighted(0.15), proptest::bool::weighted(0.2), proptest::option::weighted(0.2, 1u8..5)).prop_map(|(target, prf, deny, removed_during_prompt, adv)| SOp::Assert { target, prf, deny, removed_during_prompt, advanced_during_prompt: adv.unwrap_or(0) }),
    ];
    (0u8..3, any::<bool>(), prop_oneof![Just(HmacCfg::None), Just(HmacCfg::UvOnly), Just(HmacCfg::WithoutUvMc)], proptest::collection::vec(op, 1..12)).prop_map(|(store, counter_cfg, hmac, ops)| Shipped { store, counter_cfg, hmac, ops })
}

pub fn check_run(ctx: &mut Ctx, run: &Run) -> Result<(), String> {
    let o = execute(run)?;
    ctx.eval();
    if !run.faults.is_empty() || run.cancel_after.is_some() {
        ctx.nontrivial(run);
    }
    ctx.class("combination");
    judge(run, &o)
}

pub fn run(ctx: &mut Ctx) {
    ctx.level = "fault_enumeration";
    ctx.rule = "scenarios = generated product of operation (create / assert / U2F register at the authenticator API, create / assert through Client) x hmac-secret config x counter setting x store capability x rk/up/uv x user-validation outcome and suspensions x algorithm support x pin-auth x exclude/allow list (none, miss, hit) x PRF request x selected credential's counter and secrets x store suspensions. For every scenario: the fault-free run, EVERY fallible store call (find/save/update) of that run failing with each status of {0x00 (as the value the byte decodes to, or as the CTAP1 success value),0x01,0x2E,0x28,0x7F,0xF2,0x19} singly, and cancellation (drop) after EVERY number of polls 0..total; plus generated combinations of 2-3 faults with cancellation; plus histories on the shipped MemoryStore and Option slot whose ceremonies fail by themselves (refused user, excluded credential, unsupported algorithm, PRF the credential cannot serve, U2F key handles registered again or longer than 255 bytes; on a shared map also the selected credential removed by another party while the user is asked), judged by store snapshots before/after. Since rounds 7/8: a reference store whose lookups lag behind its writes, another party using the selected credential 1-4 times during the prompt, attestation preference and timeout on client registrations. Non-trivial = a run in which a fault was planned or the operation was dropped; distinct by run.".into();
    ctx.assumptions = vec![
        "suspension points are the ones the public traits offer: user validation and every store call (the doubles suspend a generated number of times)".into(),
        "get_info of the store cannot fail (it returns no Result)".into(),
        "complete record = private scalar valid and matching the stored public coordinates".into(),
    ];
    let n = ctx.tier.pick(600u32, 200_000u32);
    match search(ctx, 7, n, scenario(), check_scenario) {
        Search::Pass => {}
        Search::Fail(sc, msg) => {
            // the message carries the concrete failing run
            let run_json = msg.split("run=").nth(1).and_then(|s| serde_json::from_str::<Value>(s).ok());
            match run_json {
                Some(r) => ctx.violation("enumeration", r, &msg),
                None => ctx.violation("enumeration-scenario", json!(sc), &msg),
            }
        }
    }
    let combos = (scenario(), proptest::collection::btree_map(0usize..4, proptest::sample::select(CODES.to_vec()), 2..4), proptest::option::weighted(0.4, 0usize..12)).prop_map(|(sc, faults, cancel_after)| Run { sc, faults, cancel_after });
    let n = ctx.tier.pick(3_000u32, 2_000_000u32);
    match search(ctx, 17, n, combos, check_run) {
        Search::Pass => {}
        Search::Fail(r, msg) => ctx.violation("combinations", json!(r), &msg),
    }
    let n = ctx.tier.pick(2_500u32, 1_000_000u32);
    match search(ctx, 27, n, shipped(), check_shipped) {
        Search::Pass => {}
        Search::Fail(c, msg) => ctx.violation("shipped", json!(c), &msg),
    }
}

pub fn replay(ctx: &mut Ctx, stage: &str, case: &Value) -> Result<(), String> {
    if stage == "shipped" {
        let c: Shipped = serde_json::from_value(case.clone()).map_err(|e| format!("bad case: {e}"))?;
        return check_shipped(ctx, &c);
    }
    if stage == "enumeration-scenario" {
        let sc: Scenario = serde_json::from_value(case.clone()).map_err(|e| format!("bad case: {e}"))?;
        check_scenario(ctx, &sc)
    } else {
        let r: Run = serde_json::from_value(case.clone()).map_err(|e| format!("bad case: {e}"))?;
        check_run(ctx, &r)
    }
}
