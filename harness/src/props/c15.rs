//! C15 — decoders of untrusted input never crash or allocate out of proportion.
//! Cases run in isolated worker processes (see hostile.rs).

use coset::CborSerializable;
use passkey_client::{Origin, RpIdVerifier, UnverifiedAssetLink};
use passkey_transports::hid::ChannelHandler;
use passkey_types::ctap2::extensions::HmacGetSecretInput;
use passkey_types::ctap2::{get_assertion, get_info, make_credential, Aaguid, AuthenticatorData};
use passkey_types::u2f::{AuthenticationParameter, AuthenticationRequest, RegisterRequest, Request};
use passkey_types::webauthn::{AuthenticatedPublicKeyCredential, CollectedClientData, CreatedPublicKeyCredential, CredentialCreationOptions, CredentialRequestOptions};
use passkey_types::Bytes;
use proptest::prelude::*;
use public_suffix::EffectiveTLDProvider;
use serde::{Deserialize, Serialize};
use serde_json::{json, Value};

use crate::core::{h64, hex, idx, nth_value, unhex, Ctx};
use crate::hostile::{self, Body};

pub const DECODERS: [&str; 24] = [
    "cbor:makeCredential.Request",
    "cbor:makeCredential.Response",
    "cbor:getAssertion.Request",
    "cbor:getAssertion.Response",
    "cbor:getInfo.Response",
    "cbor:HmacGetSecretInput",
    "AuthenticatorData::from_slice",
    "json:CredentialCreationOptions",
    "json:CredentialRequestOptions",
    "json:CollectedClientData",
    "json:CreatedPublicKeyCredential",
    "json:AuthenticatedPublicKeyCredential",
    "base64:Bytes::try_from+try_from_base64url",
    "u2f:Request::try_from",
    "u2f:RegisterRequest::try_from",
    "u2f:AuthenticationRequest::try_from",
    "hid:packet-sequence",
    "cose:public_key_der_from_cose_key",
    "android:valid_fingerprint",
    "android:UnverifiedAssetLink::new",
    "psl:public_suffix+eTLD+1",
    "rpid:assert_domain+is_valid_rp_id",
    "cbor:Bytes",
    "cbor:Aaguid",
];

#[derive(Clone, Debug, Serialize, Deserialize, PartialEq, Eq, Hash)]
pub struct Case {
    pub decoder: usize,
    pub input_hex: String,
    /// how the input was made (for the histogram)
    pub origin: String,
}

/// feed one input to one decoder; Ok(class) — a returned value or error are both fine
pub fn run_decoder(decoder: usize, input: &[u8]) -> &'static str {
    fn cls<T, E>(r: Result<T, E>) -> &'static str {
        if r.is_ok() {
            "value"
        } else {
            "error"
        }
    }
    let text = String::from_utf8_lossy(input);
    match decoder {
        0 => cls(ciborium::de::from_reader::<make_credential::Request, _>(input)),
        1 => cls(ciborium::de::from_reader::<make_credential::Response, _>(input)),
        2 => cls(ciborium::de::from_reader::<get_assertion::Request, _>(input)),
        3 => cls(ciborium::de::from_reader::<get_assertion::Response, _>(input)),
        4 => cls(ciborium::de::from_reader::<get_info::Response, _>(input)),
        5 => cls(ciborium::de::from_reader::<HmacGetSecretInput, _>(input)),
        6 => match AuthenticatorData::from_slice(input) {
            Ok(v) => {
                let _ = v.to_vec();
                "value"
            }
            Err(_) => "error",
        },
        7 => cls(serde_json::from_slice::<CredentialCreationOptions>(input)),
        8 => cls(serde_json::from_slice::<CredentialRequestOptions>(input)),
        9 => match serde_json::from_slice::<CollectedClientData>(input) {
            Ok(v) => {
                let _ = serde_json::to_string(&v);
                "value"
            }
            Err(_) => "error",
        },
        10 => cls(serde_json::from_slice::<CreatedPublicKeyCredential>(input)),
        11 => cls(serde_json::from_slice::<AuthenticatedPublicKeyCredential>(input)),
        12 => {
            let a = Bytes::try_from(text.as_ref()).is_ok();
            let b = passkey_types::encoding::try_from_base64url(&text).is_some();
            if a || b {
                "value"
            } else {
                "error"
            }
        }
        13 => cls(Request::try_from(input)),
        14 => cls(RegisterRequest::try_from(input)),
        15 => cls(AuthenticationRequest::try_from(input, AuthenticationParameter::CheckOnly)),
        16 => {
            // packets: [len u8][bytes] ...
            let mut h = ChannelHandler::default();
            let mut i = 0;
            let mut delivered = false;
            while i < input.len() {
                let l = input[i] as usize;
                let end = (i + 1 + l).min(input.len());
                if h.handle_packet(&input[i + 1..end]).is_some() {
                    delivered = true;
                }
                i = end;
            }
            if delivered {
                "value"
            } else {
                "error"
            }
        }
        17 => match coset::CoseKey::from_slice(input) {
            Ok(k) => cls(passkey_authenticator::public_key_der_from_cose_key(&k)),
            Err(_) => "error",
        },
        18 => cls(passkey_client::valid_fingerprint(&text)),
        19 => {
            let mut parts = text.splitn(3, '\n');
            let fp = parts.next().unwrap_or("");
            let host = parts.next().unwrap_or("");
            let url = parts.next().unwrap_or("https://example.com/.well-known/assetlinks.json");
            match url::Url::parse(url) {
                Ok(u) => cls(UnverifiedAssetLink::new("pkg".to_string(), fp, host.to_string(), u)),
                Err(_) => "error",
            }
        }
        20 => {
            let _ = public_suffix::DEFAULT_PROVIDER.public_suffix(&text);
            let _ = public_suffix::DEFAULT_PROVIDER.is_effective_tld(&text);
            cls(public_suffix::DEFAULT_PROVIDER.effective_tld_plus_one(&text))
        }
        21 => {
            let mut parts = text.splitn(2, '\n');
            let origin = parts.next().unwrap_or("");
            let rp = parts.next();
            let v = RpIdVerifier::new(public_suffix::DEFAULT_PROVIDER).allows_insecure_localhost(input.len() % 2 == 0);
            let _ = rp.map(|r| v.is_valid_rp_id(r));
            match url::Url::parse(origin) {
                Ok(u) => {
                    let o: Origin = u.into();
                    cls(v.assert_domain(&o, rp))
                }
                Err(_) => match UnverifiedAssetLink::new("pkg".to_string(), "B3:5B:68:D5:CE:84:50:55:7C:6A:55:FD:64:B5:1F:EA:C1:10:CB:36:D6:A3:52:1C:59:48:DB:3A:38:0A:34:A9", origin.to_string(), url::Url::parse("https://a.example/.well-known/assetlinks.json").unwrap()) {
                    Ok(l) => cls(v.assert_domain(&Origin::Android(l), rp)),
                    Err(_) => "error",
                },
            }
        }
        22 => cls(ciborium::de::from_reader::<Bytes, _>(input)),
        23 => cls(ciborium::de::from_reader::<Aaguid, _>(input)),
        _ => "error",
    }
}

// ------------------------------------------------------------------ scaling families

pub const SCALE_FAMILIES: [&str; 19] = [
    "hid: n unfinished initialisation packets on distinct channels",
    "hid: n single-packet messages on distinct channels",
    "hid: n unfinished initialisation packets on one channel",
    "cbor getInfo: n versions",
    "cbor getInfo: n transports",
    "cbor makeCredential request: n parameters and n exclude-list entries",
    "cbor getAssertion request: n allow-list entries",
    "json creation options: n parameters and n excluded credentials",
    "json request options: n allowed credentials with transports",
    "json client data: n unknown members",
    "base64: n characters",
    "suffix list: n labels",
    "rp id verifier: host of n labels",
    "authenticator data: extension map of n entries",
    "u2f request: n data bytes",
    "cbor Bytes: array of n integers",
    "base64: a short value followed by n line breaks",
    "base64: a short value followed by n padding characters",
    "json request options: challenge of n characters, mostly blanks and tabs",
];

/// input of family `f` at size `n` (built in the worker: too large for a command line)
pub fn scale_input(f: usize, n: usize) -> (usize, Vec<u8>) {
    use passkey_types::webauthn::{PublicKeyCredentialDescriptor, PublicKeyCredentialType};
    let desc = |i: usize| PublicKeyCredentialDescriptor { ty: PublicKeyCredentialType::PublicKey, id: format!("credential-{i:08}").into_bytes().into(), transports: Some(vec![passkey_types::webauthn::AuthenticatorTransport::Usb, passkey_types::webauthn::AuthenticatorTransport::Internal]) };
    let cbor = |v: &dyn Fn(&mut Vec<u8>)| {
        let mut b = vec![];
        v(&mut b);
        b
    };
    let head = |b: &mut Vec<u8>, major: u8, n: usize| {
        b.push((major << 5) | 26);
        b.extend_from_slice(&(n as u32).to_be_bytes());
    };
    match f % SCALE_FAMILIES.len() {
        0 | 1 | 2 => {
            let mut s = Vec::with_capacity(n * 65);
            for i in 0..n {
                let ch = if f % 3 == 2 { 7u32 } else { i as u32 + 1 };
                let mut p = vec![0u8; 64];
                p[..4].copy_from_slice(&ch.to_be_bytes());
                p[4] = 0x81;
                let len: u16 = if f % 3 == 1 { 10 } else { 100 };
                p[5..7].copy_from_slice(&len.to_be_bytes());
                s.push(64);
                s.extend_from_slice(&p);
            }
            (16, s)
        }
        3 => (4, cbor(&|b| {
            b.extend_from_slice(&[0xa2, 0x01]);
            head(b, 4, n);
            for _ in 0..n {
                b.push(0x68);
                b.extend_from_slice(b"FIDO_2_0");
            }
            b.extend_from_slice(&[0x03, 0x50]);
            b.extend_from_slice(&[0u8; 16]);
        })),
        4 => (4, cbor(&|b| {
            b.extend_from_slice(&[0xa3, 0x01, 0x81, 0x68]);
            b.extend_from_slice(b"FIDO_2_0");
            b.extend_from_slice(&[0x03, 0x50]);
            b.extend_from_slice(&[0u8; 16]);
            b.push(0x09);
            head(b, 4, n);
            for i in 0..n {
                if i % 2 == 0 {
                    b.push(0x63);
                    b.extend_from_slice(b"usb");
                } else {
                    b.push(0x67);
                    b.extend_from_slice(b"unknown");
                }
            }
        })),
        5 => {
            let req = make_credential::Request {
                client_data_hash: vec![1u8; 32].into(),
                rp: make_credential::PublicKeyCredentialRpEntity { id: "example.com".into(), name: None },
                user: passkey_types::webauthn::PublicKeyCredentialUserEntity { id: b"user".to_vec().into(), display_name: "d".into(), name: "n".into() },
                pub_key_cred_params: (0..n).map(|i| passkey_types::webauthn::PublicKeyCredentialParameters { ty: PublicKeyCredentialType::PublicKey, alg: if i % 2 == 0 { coset::iana::Algorithm::ES256 } else { coset::iana::Algorithm::RS256 } }).collect(),
                exclude_list: Some((0..n).map(desc).collect()),
                extensions: None,
                options: make_credential::Options { rk: false, up: true, uv: true },
                pin_auth: None,
                pin_protocol: None,
            };
            let mut b = vec![];
            ciborium::ser::into_writer(&req, &mut b).expect("serialise");
            (0, b)
        }
        6 => {
            let req = get_assertion::Request { rp_id: "example.com".into(), client_data_hash: vec![1u8; 32].into(), allow_list: Some((0..n).map(desc).collect()), extensions: None, options: get_assertion::Options { rk: false, up: true, uv: true }, pin_auth: None, pin_protocol: None };
            let mut b = vec![];
            ciborium::ser::into_writer(&req, &mut b).expect("serialise");
            (2, b)
        }
        7 => {
            let params: Vec<Value> = (0..n).map(|i| json!({"type": if i % 3 == 2 { "unknown" } else { "public-key" }, "alg": if i % 2 == 0 { json!(-7) } else { json!("-257") }})).collect();
            let excl: Vec<Value> = (0..n).map(|i| json!({"type": "public-key", "id": crate::model::util::b64url(format!("credential-{i:08}").as_bytes()), "transports": ["usb", "future-transport"]})).collect();
            (7, serde_json::to_vec(&json!({"publicKey": {"rp": {"id": "example.com", "name": "n"}, "user": {"id": "dXNlcg", "name": "n", "displayName": "d"}, "challenge": "Y2hhbGxlbmdl", "pubKeyCredParams": params, "excludeCredentials": excl}})).unwrap())
        }
        8 => {
            let allow: Vec<Value> = (0..n).map(|i| json!({"type": "public-key", "id": crate::model::util::b64url(format!("credential-{i:08}").as_bytes()), "transports": ["usb", "nfc", "future-transport"]})).collect();
            (8, serde_json::to_vec(&json!({"publicKey": {"challenge": "Y2hhbGxlbmdl", "rpId": "example.com", "allowCredentials": allow}})).unwrap())
        }
        9 => {
            let mut m = serde_json::Map::new();
            m.insert("type".into(), json!("webauthn.get"));
            m.insert("challenge".into(), json!("Y2hhbGxlbmdl"));
            m.insert("origin".into(), json!("https://example.com"));
            m.insert("crossOrigin".into(), json!(false));
            for i in 0..n {
                m.insert(format!("member{i:08}"), json!(i));
            }
            (9, serde_json::to_vec(&Value::Object(m)).unwrap())
        }
        10 => (12, "QUJD".repeat(n / 4 + 1).into_bytes()),
        16 => (12, format!("QUJD{}", "\r\n".repeat(n / 2)).into_bytes()),
        17 => (12, format!("QUJD{}", "=".repeat(n)).into_bytes()),
        18 => (8, format!("{{\"publicKey\":{{\"challenge\":\"QUJD{}QUJD\",\"rpId\":\"example.com\"}}}}", " \\t".repeat(n / 3)).into_bytes()),
        11 => (20, format!("{}com", "ab.".repeat(n)).into_bytes()),
        12 => (21, format!("https://{}example.com\nexample.com", "ab.".repeat(n)).into_bytes()),
        13 => (6, cbor(&|b| {
            b.extend_from_slice(&crate::model::util::sha256(b"example.com"));
            b.push(0x81);
            b.extend_from_slice(&[0, 0, 0, 1]);
            head(b, 5, n);
            for i in 0..n {
                b.push(0x6a);
                b.extend_from_slice(format!("k{i:09}").as_bytes());
                b.push(0x01);
            }
        })),
        14 => {
            let n = n.min(65_000);
            let mut b = vec![0x00, 0x01, 0x00, 0x00, 0x00, (n >> 8) as u8, n as u8];
            b.extend(std::iter::repeat(0x5a).take(n));
            (13, b)
        }
        _ => (22, cbor(&|b| {
            head(b, 4, n);
            b.extend(std::iter::repeat(0x17).take(n));
        })),
    }
}

fn parse_scale(origin: &str) -> Option<(usize, usize)> {
    let mut it = origin.strip_prefix("scale:")?.split(':');
    Some((it.next()?.parse().ok()?, it.next()?.parse().ok()?))
}

pub fn body_for(case: &Case) -> (Option<usize>, Box<dyn FnMut() -> Body + Send>) {
    let (decoder, input) = match parse_scale(&case.origin) {
        Some((f, n)) => scale_input(f, n),
        None => (case.decoder, unhex(&case.input_hex)),
    };
    let origin = case.origin.clone();
    let len = input.len();
    let key = h64(&(decoder, &input));
    let sample = json!({"decoder": DECODERS[decoder % DECODERS.len()], "origin": origin, "len": len, "input_hex_prefix": &case.input_hex[..case.input_hex.len().min(96)]});
    (
        Some(len),
        Box::new(move || {
            let outcome = run_decoder(decoder, &input);
            // non-trivial: a mutation of a valid encoding, or the decoder got past its first structural check
            let nontrivial = origin != "arbitrary" || outcome == "value";
            Body { class: format!("{}/{}/{}", DECODERS[decoder % DECODERS.len()], origin, outcome), result: Ok(()), nontrivial, key, sample: Some(sample.clone()) }
        }),
    )
}

// ------------------------------------------------------------------ generation

#[derive(Clone, Debug)]
enum Mutation {
    Truncate(u16),
    Extend(Vec<u8>),
    BitFlip(u16, u8),
    /// rewrite the k-th CBOR head to a huge length
    CborHuge(u16, u8),
    /// insert a huge head at a byte position
    InsertHead(u16, u8),
    /// wrap in deep nesting
    Nest(u8, u32),
    /// put a chain of n arrays/maps with huge declared lengths in front of the k-th item (each level of a decoder
    /// that buffers by declared length reserves again)
    HugeChain(u16, u8, u8),
    /// overwrite two/four bytes at a position with a length-like value
    LenField(u16, u8),
    /// rewrite the k-th CBOR integer head to a boundary value (2^63-1, 2^63, 2^64-1, -2^63-1, -2^64)
    IntBoundary(u16, u8),
    Splice(u16, u16, u16),
    None,
}

const HUGE: [u64; 7] = [1 << 16, (1 << 32) - 1, 1 << 32, 1 << 40, 1 << 63, u64::MAX, 1 << 28];

/// offsets of CBOR item heads (best effort walker over well-formed input)
fn cbor_heads(b: &[u8]) -> Vec<(usize, u8, usize)> {
    // (offset, major, head length)
    let mut out = vec![];
    let mut i = 0;
    while i < b.len() && out.len() < 4096 {
        let major = b[i] >> 5;
        let ai = b[i] & 0x1f;
        let (hl, val): (usize, u64) = match ai {
            0..=23 => (1, ai as u64),
            24 if i + 1 < b.len() => (2, b[i + 1] as u64),
            25 if i + 2 < b.len() => (3, u16::from_be_bytes([b[i + 1], b[i + 2]]) as u64),
            26 if i + 4 < b.len() => (5, u32::from_be_bytes(b[i + 1..i + 5].try_into().unwrap()) as u64),
            27 if i + 8 < b.len() => (9, u64::from_be_bytes(b[i + 1..i + 9].try_into().unwrap())),
            _ => (1, 0),
        };
        out.push((i, major, hl));
        i += hl;
        if major == 2 || major == 3 {
            i = i.saturating_add(val as usize);
        }
    }
    out
}

fn apply(m: &Mutation, mut b: Vec<u8>, json_like: bool) -> Vec<u8> {
    match m {
        Mutation::None => b,
        Mutation::Truncate(p) => {
            let l = idx(*p, b.len() + 1);
            b.truncate(l);
            b
        }
        Mutation::Extend(e) => {
            b.extend_from_slice(e);
            b
        }
        Mutation::BitFlip(p, bit) => {
            if !b.is_empty() {
                let i = idx(*p, b.len());
                b[i] ^= 1 << (bit % 8);
            }
            b
        }
        Mutation::CborHuge(k, which) => {
            let heads: Vec<(usize, u8, usize)> = cbor_heads(&b).into_iter().filter(|h| (2..=5).contains(&h.1)).collect();
            if heads.is_empty() {
                return b;
            }
            let (off, major, hl) = heads[idx(*k, heads.len())];
            let mut head = vec![(major << 5) | 27];
            head.extend_from_slice(&HUGE[*which as usize % HUGE.len()].to_be_bytes());
            b.splice(off..off + hl, head);
            b
        }
        Mutation::InsertHead(p, which) => {
            let i = idx(*p, b.len() + 1);
            let major = [2u8, 3, 4, 5][*which as usize % 4];
            let mut head = vec![(major << 5) | 27];
            head.extend_from_slice(&HUGE[(*which as usize / 4) % HUGE.len()].to_be_bytes());
            b.splice(i..i, head);
            b
        }
        Mutation::HugeChain(k, which, n) => {
            let heads = cbor_heads(&b);
            let off = if heads.is_empty() { 0 } else { heads[idx(*k, heads.len())].0 };
            let major = [4u8, 5, 4, 2][*which as usize % 4];
            let mut head = vec![(major << 5) | 27];
            head.extend_from_slice(&HUGE[(*which as usize / 4) % HUGE.len()].to_be_bytes());
            if major == 5 {
                // a map level needs a key before the nested value
                head.push(0x01);
            }
            let chain = head.repeat(2 + *n as usize % 63);
            b.splice(off..off, chain);
            b
        }
        Mutation::Nest(kind, depth) => {
            let d = *depth as usize;
            if json_like {
                let (o, c) = if kind % 2 == 0 { ("[", "]") } else { ("{\"a\":", "}") };
                let mut v = o.repeat(d).into_bytes();
                v.extend_from_slice(&b);
                if kind % 4 < 2 {
                    v.extend_from_slice(c.repeat(d).as_bytes());
                }
                v
            } else {
                let unit: &[u8] = match kind % 3 {
                    0 => &[0x81],
                    1 => &[0xa1, 0x01],
                    _ => &[0xc1],
                };
                let mut v = unit.repeat(d);
                v.extend_from_slice(&b);
                v
            }
        }
        Mutation::IntBoundary(k, which) => {
            let heads: Vec<(usize, u8, usize)> = cbor_heads(&b).into_iter().filter(|h| h.1 <= 1).collect();
            if heads.is_empty() {
                return b;
            }
            let (off, _, hl) = heads[idx(*k, heads.len())];
            let (major, val): (u8, u64) = [(0u8, (1u64 << 63) - 1), (0, 1 << 63), (0, u64::MAX), (1, 1 << 63), (1, u64::MAX), (1, (1 << 63) - 1)][*which as usize % 6];
            let mut head = vec![(major << 5) | 27];
            head.extend_from_slice(&val.to_be_bytes());
            b.splice(off..off + hl, head);
            b
        }
        Mutation::LenField(p, which) => {
            if b.len() >= 2 {
                let i = idx(*p, b.len() - 1);
                let v = [0xFFFFu16, 0x0000, 0x8000, 0x0039, 0x003A, 0x1DB9, 0x1DBA, 0x00FF][*which as usize % 8];
                b[i..i + 2].copy_from_slice(&v.to_be_bytes());
            }
            b
        }
        Mutation::Splice(from, len, to) => {
            if !b.is_empty() {
                let f = idx(*from, b.len());
                let l = idx(*len, (b.len() - f).min(64) + 1);
                let chunk = b[f..f + l].to_vec();
                let t = idx(*to, b.len() + 1);
                b.splice(t..t, chunk);
            }
            b
        }
    }
}

fn mutation() -> impl Strategy<Value = Mutation> {
    prop_oneof![
        3 => any::<u16>().prop_map(Mutation::Truncate),
        1 => proptest::collection::vec(any::<u8>(), 1..40).prop_map(Mutation::Extend),
        3 => (any::<u16>(), any::<u8>()).prop_map(|(p, b)| Mutation::BitFlip(p, b)),
        4 => (any::<u16>(), any::<u8>()).prop_map(|(k, w)| Mutation::CborHuge(k, w)),
        2 => (any::<u16>(), any::<u8>()).prop_map(|(k, w)| Mutation::InsertHead(k, w)),
        1 => (any::<u8>(), prop_oneof![Just(10u32), Just(127), Just(129), Just(300), Just(5_000), Just(100_000)]).prop_map(|(k, d)| Mutation::Nest(k, d)),
        2 => (any::<u16>(), any::<u8>(), any::<u8>()).prop_map(|(k, w, n)| Mutation::HugeChain(k, w, n)),
        2 => (any::<u16>(), any::<u8>()).prop_map(|(p, w)| Mutation::LenField(p, w)),
        2 => (any::<u16>(), any::<u8>()).prop_map(|(p, w)| Mutation::IntBoundary(p, w)),
        1 => (any::<u16>(), any::<u16>(), any::<u16>()).prop_map(|(a, b, c)| Mutation::Splice(a, b, c)),
        1 => Just(Mutation::None),
    ]
}

/// valid encodings per decoder family: (decoder, bytes, json-like)
fn valid() -> impl Strategy<Value = (usize, Vec<u8>, bool)> {
    use crate::props::{c12, c13, c14, c16, c17};
    let cbor = prop_oneof![
        c13::mc_request_bytes().prop_map(|b| (0usize, b)),
        c13::mc_response_bytes().prop_map(|b| (1usize, b)),
        c13::ga_request_bytes().prop_map(|b| (2usize, b)),
        c13::ga_response_bytes().prop_map(|b| (3usize, b)),
        c13::gi_response_bytes().prop_map(|b| (4usize, b)),
        c13::hmac_input_bytes().prop_map(|b| (5usize, b)),
    ]
    .prop_map(|(d, b)| (d, b, false));
    let authdata = c12::encoded().prop_map(|b| (6usize, b, false));
    let json_opts = c14::rendered().prop_map(|(create, text)| (if create { 7usize } else { 8 }, text.into_bytes(), true));
    let client_data = crate::ceremony::json_extra().prop_map(|extra| {
        let mut m = serde_json::Map::new();
        m.insert("type".into(), json!("webauthn.get"));
        m.insert("challenge".into(), json!("Y2hhbGxlbmdl"));
        m.insert("origin".into(), json!("https://example.com"));
        m.insert("crossOrigin".into(), json!(false));
        for (k, v) in extra.as_object().cloned().unwrap_or_default() {
            m.insert(k, v);
        }
        (9usize, serde_json::to_vec(&Value::Object(m)).unwrap(), true)
    });
    let creds = (any::<bool>(), proptest::collection::vec(any::<u8>(), 0..60)).prop_map(|(created, b)| {
        let v = if created {
            json!({"id": crate::model::util::b64url(&b), "rawId": b, "type": "public-key", "response": {"clientDataJSON": b, "authenticatorData": b, "publicKey": b, "publicKeyAlgorithm": -7, "attestationObject": crate::model::util::b64url(&b), "transports": ["internal", "usb"]}, "authenticatorAttachment": "platform", "clientExtensionResults": {"credProps": {"rk": true}, "prf": {"enabled": true, "results": {"first": b}}}})
        } else {
            json!({"id": crate::model::util::b64url(&b), "rawId": crate::model::util::b64std_padded(&b), "type": "public-key", "response": {"clientDataJSON": b, "authenticatorData": b, "signature": b, "userHandle": b}, "clientExtensionResults": {}})
        };
        (if created { 10usize } else { 11 }, serde_json::to_vec(&v).unwrap(), true)
    });
    let b64 = proptest::collection::vec(any::<u8>(), 0..200).prop_map(|b| (12usize, [crate::model::util::b64url(&b), crate::model::util::b64std_padded(&b)][b.len() % 2].clone().into_bytes(), true));
    let u2f = c17::frame_bytes().prop_map(|(d, b)| (d, b, false));
    let hid = prop_oneof![
        4 => c16::stream_bytes(),
        // many initialization packets on distinct channels, each announcing a long message that never continues
        1 => (prop_oneof![Just(60usize), Just(400), Just(2500)], any::<u16>(), any::<u32>()).prop_map(|(n, declared, base)| {
            let mut out = Vec::with_capacity(n * 65);
            for i in 0..n {
                out.push(64u8);
                out.extend_from_slice(&base.wrapping_add(i as u32).to_be_bytes());
                out.push(0x83);
                out.extend_from_slice(&(declared | 0x8000).to_be_bytes());
                out.extend_from_slice(&[0xAB; 57]);
            }
            out
        }),
        // one channel: an initialisation packet declaring any length (also far above the maximum), followed by a long
        // train of continuation packets numbered in order (modulo 128, as a wrapping byte, or constant)
        1 => (prop_oneof![Just(0xFFFFu16), Just(7609), Just(7610), Just(15102), Just(15103), Just(0x8000), any::<u16>()], prop_oneof![Just(0usize), Just(127), Just(128), Just(129), Just(255), Just(256), Just(257), Just(600), 0usize..700], 0u8..3, any::<u32>()).prop_map(|(declared, n, rule, ch)| {
            let mut out = Vec::with_capacity((n + 1) * 65);
            out.push(64u8);
            out.extend_from_slice(&ch.to_be_bytes());
            out.push(0x83);
            out.extend_from_slice(&declared.to_be_bytes());
            out.extend_from_slice(&[0xCD; 57]);
            for i in 0..n {
                out.push(64u8);
                out.extend_from_slice(&ch.to_be_bytes());
                out.push(match rule {
                    0 => (i % 128) as u8,
                    1 => i as u8,
                    _ => 0,
                });
                out.extend_from_slice(&[0xEF; 59]);
            }
            out
        }),
    ]
    .prop_map(|b| (16usize, b, false));
    // coordinate sizes of both coordinates vary, also in pairs that add up to two proper coordinates
    let coord_len = prop_oneof![4 => Just(32usize), 1 => prop_oneof![Just(0usize), Just(1), Just(16), Just(31), Just(33), Just(48), Just(63), Just(64), Just(65)], 1 => 0usize..70];
    let cose = ((coord_len.clone(), coord_len, any::<bool>(), any::<u8>()), proptest::collection::vec(any::<u8>(), 0..40), any::<bool>()).prop_map(|((xl, yl, complementary, fill), x, private)| {
        let yl = if complementary { 64usize.saturating_sub(xl) } else { yl };
        let y: Vec<u8> = (0..yl).map(|i| fill.wrapping_add(i as u8)).collect();
        let x: Vec<u8> = if x.len() % 2 == 0 { (0..xl).map(|i| fill.wrapping_mul(3).wrapping_add(i as u8)).collect() } else { x };
        // a valid P-256 point now and then
        let (x, y) = if x.len() % 3 == 0 {
            let pk = crate::model::util::make_passkey(x.len() as u64, "r", b"i", None, None, None);
            let s = crate::model::util::snap(&pk);
            (s.x.unwrap(), s.y.unwrap())
        } else if x.len() % 5 == 0 {
            (vec![7u8; 32], y)
        } else {
            (x, y)
        };
        let k = if private { coset::CoseKeyBuilder::new_ec2_priv_key(coset::iana::EllipticCurve::P_256, x, y.clone(), y) } else { coset::CoseKeyBuilder::new_ec2_pub_key(coset::iana::EllipticCurve::P_256, x, y) }.algorithm(coset::iana::Algorithm::ES256).build();
        (17usize, k.to_vec().unwrap(), false)
    });
    let fp = prop_oneof![3 => proptest::collection::vec(any::<u8>(), 32..=32), 1 => proptest::collection::vec(any::<u8>(), 0..40)].prop_map(|b| (18usize, b.iter().map(|x| format!("{x:02X}")).collect::<Vec<_>>().join(":").into_bytes(), true));
    let link = (prop_oneof![1 => Just(String::new()), 4 => "[a-z0-9.-]{0,30}"], 0usize..ASSET_URLS.len()).prop_map(|(host, u)| (19usize, format!("B3:5B:68:D5:CE:84:50:55:7C:6A:55:FD:64:B5:1F:EA:C1:10:CB:36:D6:A3:52:1C:59:48:DB:3A:38:0A:34:A9\n{host}\n{}", ASSET_URLS[u]).into_bytes(), true));
    // names assembled from labels, list rules and characters whose case mappings change the encoded length
    let pieces = proptest::collection::vec(proptest::sample::select(vec!["\u{212A}", "\u{2126}", "\u{212B}", "\u{1E9E}", "\u{0130}", "\u{FB01}", "\u{00DF}", "a", "B", "www", ".", ".", "com", "co.uk", "ck", "test", "xn--", "\u{3002}"]), 1..10).prop_map(|v| (20usize, v.concat().into_bytes(), true));
    let names = prop_oneof!["[a-z0-9.-]{0,60}", "\\PC{0,30}", Just("a.".repeat(3000)), Just("www.ck".to_string()), Just("xn--55qx5d.cn".to_string())].prop_map(|s| (20usize, s.into_bytes(), true));
    let rp = (prop_oneof![Just("https://"), Just("http://"), Just(""), Just("ftp://")], "[a-z0-9.-]{0,40}", proptest::option::of("[a-zA-Z0-9.\\-\u{80}-\u{200}]{0,40}")).prop_map(|(scheme, host, rp)| (21usize, format!("{scheme}{host}{}", rp.map(|r| format!("\n{r}")).unwrap_or_default()).into_bytes(), true));
    let bytes_cbor = proptest::collection::vec(any::<u8>(), 0..100).prop_map(|b| {
        let mut v = vec![];
        ciborium::ser::into_writer(&ciborium::value::Value::Bytes(b), &mut v).unwrap();
        (22usize, v, false)
    });
    let bytes_arr = proptest::collection::vec(any::<u8>(), 0..100).prop_map(|b| {
        let mut v = vec![];
        ciborium::ser::into_writer(&b, &mut v).unwrap();
        (22usize, v, false)
    });
    let aaguid = any::<[u8; 16]>().prop_map(|a| {
        let mut v = vec![];
        ciborium::ser::into_writer(&ciborium::value::Value::Bytes(a.to_vec()), &mut v).unwrap();
        (23usize, v, false)
    });
    prop_oneof![
        8 => cbor,
        3 => authdata,
        4 => json_opts,
        1 => client_data,
        2 => creds,
        1 => b64,
        3 => u2f,
        3 => hid,
        2 => cose,
        1 => fp,
        1 => link,
        1 => names,
        1 => pieces,
        1 => rp,
        1 => bytes_cbor,
        1 => bytes_arr,
        1 => aaguid,
    ]
}

fn case_strategy() -> impl Strategy<Value = Case> {
    let arbitrary = (0usize..DECODERS.len(), prop_oneof![4 => proptest::collection::vec(any::<u8>(), 0..300), 1 => proptest::collection::vec(any::<u8>(), 300..3000), 1 => "[ -~]{0,200}".prop_map(|s| s.into_bytes())]).prop_map(|(decoder, b)| Case { decoder, input_hex: hex(&b), origin: "arbitrary".into() });
    let mutated = (valid(), proptest::collection::vec(mutation(), 1..4), proptest::option::weighted(0.15, 0usize..DECODERS.len())).prop_map(|((decoder, bytes, json_like), muts, cross)| {
        let mut b = bytes;
        let mut names = vec![];
        for m in &muts {
            b = apply(m, b, json_like);
            names.push(match m {
                Mutation::Truncate(_) => "truncate",
                Mutation::Extend(_) => "extend",
                Mutation::BitFlip(..) => "bitflip",
                Mutation::CborHuge(..) => "huge-length",
                Mutation::InsertHead(..) => "inserted-huge-head",
                Mutation::Nest(..) => "deep-nesting",
                Mutation::HugeChain(..) => "nested-huge-lengths",
                Mutation::LenField(..) => "length-field",
                Mutation::IntBoundary(..) => "integer-boundary",
                Mutation::Splice(..) => "splice",
                Mutation::None => "valid",
            });
        }
        names.sort();
        names.dedup();
        // occasionally feed the encoding to another decoder of the same wire format
        let decoder = match cross {
            Some(c) if (c <= 5 || c >= 22) == (decoder <= 5 || decoder >= 22) && (7..=11).contains(&c) == (7..=11).contains(&decoder) => c,
            _ => decoder,
        };
        Case { decoder, input_hex: hex(&b), origin: names.join("+") }
    });
    prop_oneof![1 => arbitrary, 4 => mutated]
}

pub fn gen_case(seed: u64, i: u64) -> Case {
    nth_value(h64(&(seed, i, "c15")), &case_strategy())
}

// fixed regression inputs (the defect classes found while reading the code)
const ASSET_URLS: [&str; 8] = [
    "https://x.example/.well-known/assetlinks.json",
    "http://x.example/other",
    "https://192.0.2.7/.well-known/assetlinks.json",
    "https://[2001:db8::1]/.well-known/assetlinks.json",
    "https://3232235777/.well-known/assetlinks.json",
    "https://x.example:8443/.well-known/assetlinks.json",
    "https://user@x.example/.well-known/assetlinks.json",
    "https://localhost/.well-known/assetlinks.json",
];

fn fixed_cases() -> Vec<Case> {
    let mut v = vec![];
    let mut add = |decoder: usize, hexs: &str, origin: &str| v.push(Case { decoder, input_hex: hexs.replace(' ', ""), origin: origin.into() });
    add(0, "a1 01 9b 00 00 01 00 00 00 00 00", "fixed:D7-huge-array");
    add(4, "a3 01 81 68 46 49 44 4f 5f 32 5f 30 03 50 00 00 00 00 00 00 00 00 00 00 00 00 00 00 00 00 09 9a 10 00 00 00", "fixed:D8-truncated-list");
    add(4, "a3 01 81 68 46 49 44 4f 5f 32 5f 30 03 50 00 00 00 00 00 00 00 00 00 00 00 00 00 00 00 00 09 9b ff ff ff ff ff ff ff ff", "fixed:D8-truncated-list");
    // a binary member given as an array: the head declares far more than it carries, and it carries more than any
    // small pre-allocation covers (4090 / 4097 / 6000 elements)
    for (n, declared) in [(4090usize, "9a 07 ff ff ff"), (4097, "9a 07 ff ff ff"), (6000, "9b 00 00 01 00 00 00 00 00"), (5000, "9a 00 00 13 88")] {
        add(0, &format!("a1 01 {declared} {}", "17".repeat(n)), "fixed:bytes-as-long-array");
        add(22, &format!("{declared} {}", "18 ff".repeat(n)), "fixed:bytes-as-long-array");
    }
    // a list element that nests arrays with huge declared lengths (an element buffer that reserves by declared length does so per level)
    for n in [9usize, 60, 200] {
        add(4, &format!("a3 01 81 68 46 49 44 4f 5f 32 5f 30 03 50 {} 09 81 {}", "00".repeat(16), "9b 00 00 01 00 00 00 00 00".repeat(n)), "fixed:D8-nested-declared-lengths");
    }
    add(13, "00 01 00 00 00 00", "fixed:D9-short-frame");
    add(13, "00 02 05 00 00 00 41", "fixed:D9-p1");
    add(13, "00 01 00 00 00 ff ff 00", "fixed:D9-declared-length");
    add(14, "00 01", "fixed:D9-register-short");
    add(15, &"00".repeat(64), "fixed:D9-auth-64");
    add(15, &format!("{}ff00", "00".repeat(64)), "fixed:D9-auth-handle");
    add(16, "07 01 02 03 04 83 00 01", "fixed:D10-short-init");
    add(16, &format!("42 01020304 83 003a {} 05 01020304 00", "aa".repeat(59)), "fixed:D10-overlong-init");
    add(16, &format!("40 01020304 83 0064 {} 06 01020304 00 01", "bb".repeat(57)), "fixed:D10-short-cont");
    // COSE key with a 31-byte x
    let k = coset::CoseKeyBuilder::new_ec2_pub_key(coset::iana::EllipticCurve::P_256, vec![1; 31], vec![2; 32]).algorithm(coset::iana::Algorithm::ES256).build();
    v.push(Case { decoder: 17, input_hex: hex(&k.to_vec().unwrap()), origin: "fixed:D11-cose-31".into() });
    // names with characters whose case mappings change the encoded length (Kelvin sign, Ohm sign, Angstrom sign, capital
    // sharp s, dotted capital I, ligatures), in front of and inside list rules
    for special in ["\u{212A}", "\u{2126}", "\u{212B}", "\u{1E9E}", "\u{0130}", "\u{FB01}", "\u{01C5}", "\u{00DF}"] {
        for n in 1..=5usize {
            for tail in ["com", "test.ck", "co.uk", "www.ck", "city.kobe.jp"] {
                v.push(Case { decoder: 20, input_hex: hex(format!("{}.{tail}", special.repeat(n)).as_bytes()), origin: "fixed:case-mapping-lengths".into() });
                v.push(Case { decoder: 20, input_hex: hex(format!("a.{}.{tail}", special.repeat(n)).as_bytes()), origin: "fixed:case-mapping-lengths".into() });
                v.push(Case { decoder: 21, input_hex: hex(format!("{}.{tail}\n{tail}", special.repeat(n)).as_bytes()), origin: "fixed:case-mapping-lengths".into() });
            }
        }
    }
    // asset links: no host given, statement URLs whose host is an address or carries a port
    let fp = "B3:5B:68:D5:CE:84:50:55:7C:6A:55:FD:64:B5:1F:EA:C1:10:CB:36:D6:A3:52:1C:59:48:DB:3A:38:0A:34:A9";
    for host in ["", ".", "example.com", "192.0.2.7", "[2001:db8::1]"] {
        for url in ASSET_URLS {
            v.push(Case { decoder: 19, input_hex: hex(format!("{fp}\n{host}\n{url}").as_bytes()), origin: "fixed:asset-link-hosts".into() });
        }
    }
    v
}

pub fn worker(args: &[String]) -> i32 {
    // args: kind seed first stride end | c15one json
    if args[0] == "c15one" {
        let case: Case = match serde_json::from_str(&hostile::one_arg(&args[1])) {
            Ok(c) => c,
            Err(_) => return 2,
        };
        let (len, body) = body_for(&case);
        return hostile::worker_one(len, body);
    }
    let seed: u64 = args[1].parse().unwrap_or(0);
    let first: u64 = args[2].parse().unwrap_or(0);
    let stride: u64 = args[3].parse().unwrap_or(1);
    let end: u64 = args[4].parse().unwrap_or(0);
    let fixed = fixed_cases();
    let nfixed = fixed.len() as u64;
    hostile::worker_loop(first, stride, end, &move |i| {
        let case = if i < nfixed { fixed[i as usize].clone() } else { gen_case(seed, i) };
        body_for(&case)
    })
}

fn case_for_index(seed: u64, i: u64) -> Case {
    let fixed = fixed_cases();
    if (i as usize) < fixed.len() {
        fixed[i as usize].clone()
    } else {
        gen_case(seed, i)
    }
}

/// failure signature: decoder + failure class
fn signature(case: &Case, msg: &str) -> String {
    let class = if msg.contains("memory out of proportion") {
        "memory"
    } else if msg.contains("time out of proportion") || msg.contains("watchdog") {
        "cpu"
    } else if msg.contains("panicked") {
        "panic"
    } else {
        "death"
    };
    format!("{}|{class}", DECODERS[case.decoder % DECODERS.len()])
}

/// does this case still fail (in a child process)?
fn fails(case: &Case) -> Option<String> {
    match hostile::run_one_confirmed("c15", &serde_json::to_string(case).unwrap()) {
        Ok(r) if r.ok => None,
        Ok(r) => Some(r.msg),
        Err(how) => Some(how),
    }
}

/// ddmin over the input bytes, keeping the failure signature
fn minimise(case: &Case, msg: &str) -> Case {
    let sig = signature(case, msg);
    let mut best = unhex(&case.input_hex);
    if sig.ends_with("|cpu") {
        // every candidate run of a non-terminating input costs a watchdog period
        return case.clone();
    }
    let mut n = 2usize;
    let mut budget = 400;
    let t0 = std::time::Instant::now();
    while best.len() >= 2 && budget > 0 && t0.elapsed().as_secs() < 30 {
        let chunk = best.len().div_ceil(n);
        let mut reduced = false;
        let mut start = 0;
        while start < best.len() && budget > 0 {
            let end = (start + chunk).min(best.len());
            let mut cand = best[..start].to_vec();
            cand.extend_from_slice(&best[end..]);
            budget -= 1;
            let c = Case { decoder: case.decoder, input_hex: hex(&cand), origin: case.origin.clone() };
            if let Some(m) = fails(&c) {
                if signature(&c, &m) == sig && !m.starts_with(hostile::STALL) {
                    best = cand;
                    n = n.saturating_sub(1).max(2);
                    reduced = true;
                    break;
                }
            }
            start = end;
        }
        if !reduced {
            if n >= best.len() {
                break;
            }
            n = (n * 2).min(best.len());
        }
    }
    Case { decoder: case.decoder, input_hex: hex(&best), origin: format!("{} (minimised)", case.origin) }
}

pub fn run(ctx: &mut Ctx) {
    ctx.rule = "inputs for 24 public decoder entry points (CTAP2 CBOR of six message types, authenticator data, WebAuthn JSON of five types, base64 helpers, three U2F parsers, CTAPHID packet sequences, COSE key converter, fingerprint and asset-link validators, suffix-list API, RP-ID verifier, Bytes/Aaguid CBOR): arbitrary bytes/strings, and structured mutations of valid encodings produced by the C12/C13/C14/C16/C17 generators (truncation, extension, bit flips, a CTAPHID initialisation packet declaring any length followed by up to 700 continuation packets, COSE keys whose coordinates have any sizes; CBOR length heads rewritten to 2^16 / 2^32-1 / 2^32 / 2^40 / 2^63 / 2^64-1 / 2^28, inserted huge heads, nesting up to 10^5, length fields rewritten, splices), occasionally fed to another decoder of the same wire format; each case runs in an isolated worker under catch_unwind with allocation and CPU accounting. Plus 16 growth families (thousands of HID packets on distinct / one channel, CBOR and JSON lists of n entries, n unknown members, n labels, ...) measured at n and 4n. Since rounds 7/8: names with characters whose case mappings change the encoded length, asset links without a host against address-host statement URLs, growth families with line breaks / padding / blanks (19 families). Non-trivial = a mutation of a valid encoding, or an input the decoder accepted; distinct by (decoder, input).".into();
    ctx.assumptions = vec![
        "'out of proportion' is decided numerically: largest single allocation request and peak live bytes <= 8 MiB + 256 x input length (serde itself pre-allocates up to ~1.6 MB for a declared collection length, a bounded constant); thread CPU time <= 250 ms + 20 us x input length (minimum of 3 runs); a 10 s CPU watchdog in the worker".into(),
        "a returned value and a returned error are both fine".into(),
        "growth: CPU time at 4n must stay within 8x the time at n plus 30 ms (only judged when the larger run takes at least 100 ms; the smaller input's time is the maximum, the larger one's the minimum of repeated measurements)".into(),
        "a wall-clock stall without CPU consumption is reported as inconclusive (exit 2), never as a violation".into(),
    ];
    let total = ctx.tier.pick(300_000u64, 6_000_000u64);
    let out = hostile::run_cases("c15", ctx.seed, total, 16);
    let mut failures: Vec<(Case, String)> = vec![];
    let mut max_alloc = 0u64;
    let mut max_cpu = 0u64;
    for r in &out.reports {
        ctx.eval();
        ctx.class(&r.class);
        if r.nontrivial {
            ctx.nontrivial(&r.key);
        }
        max_alloc = max_alloc.max(r.max_alloc);
        max_cpu = max_cpu.max(r.cpu_us);
        if let Some(s) = &r.sample {
            let cls = r.class.split('/').next().unwrap_or("").to_string();
            ctx.sample(&cls, || s.clone());
        }
        if !r.ok {
            failures.push((case_for_index(ctx.seed, r.i), r.msg.clone()));
        }
    }
    for (i, how) in &out.deaths {
        ctx.eval();
        failures.push((case_for_index(ctx.seed, *i), format!("the process died while decoding ({how}: abort, stack overflow or fatal signal)")));
    }
    ctx.note("largest_allocation_seen_bytes", json!(max_alloc));
    ctx.note("largest_cpu_time_seen_us", json!(max_cpu));
    ctx.note("worker_deaths", json!(out.deaths.len()));
    // one violation per signature
    let mut seen = std::collections::HashSet::new();
    let mut unconfirmed = 0u64;
    for (case, msg) in failures {
        if seen.contains(&signature(&case, &msg)) || seen.len() >= 6 {
            continue;
        }
        // confirm in a fresh process of its own: a worker that was killed from outside, or a measurement disturbed
        // by other load, does not reproduce and is not a verdict about the library
        let Some(msg) = fails(&case) else {
            unconfirmed += 1;
            continue;
        };
        hostile::exit_if_stalled("C15", &msg);
        let sig = signature(&case, &msg);
        if !seen.insert(sig.clone()) {
            continue;
        }
        let min = minimise(&case, &msg);
        let final_case = if min.input_hex == case.input_hex || fails(&min).is_some_and(|m| !m.starts_with(hostile::STALL)) { min } else { case };
        ctx.violation(&format!("decoders-{}", seen.len()), json!(final_case), &format!("{}: {msg}", DECODERS[final_case.decoder % DECODERS.len()]));
    }
    ctx.note("failures_not_reproduced_in_isolation", json!(unconfirmed));
    // ---- growth: the same shape at size n and 4n (each in a process of its own); linear work takes about 4x
    if ctx.first_shard() {
        let mut table = vec![];
        for f in 0..SCALE_FAMILIES.len() {
            let n = scale_base(f, ctx.tier);
            match check_scaling(f, n) {
                Ok((t1, t4, len1, len4)) => {
                    ctx.eval();
                    ctx.eval();
                    ctx.class("scaling pair (n, 4n)");
                    ctx.nontrivial(&("scale", f, n));
                    table.push(json!({"family": SCALE_FAMILIES[f], "n": n, "bytes_n": len1, "bytes_4n": len4, "cpu_us_n": t1, "cpu_us_4n": t4}));
                }
                Err(e) => {
                    hostile::exit_if_stalled("C15", &e);
                    ctx.violation(&format!("scaling-{f}"), json!({"scale_family": f, "n": n}), &e);
                }
            }
        }
        ctx.note("scaling", json!(table));
    }
    if let Some(why) = out.inconclusive {
        if ctx.violations.is_empty() {
            eprintln!("C15 inconclusive: {why}");
            std::process::exit(2);
        }
    }
}

fn scale_base(f: usize, tier: crate::core::Tier) -> usize {
    let n = match f % SCALE_FAMILIES.len() {
        14 => 16_000,
        10 | 15 | 16 | 17 | 18 => 200_000,
        _ => 8_000,
    };
    if f % SCALE_FAMILIES.len() == 14 {
        n
    } else {
        tier.pick(n, n * 2)
    }
}

/// CPU time of family f at n and at 4n (minimum of up to three measurements each, every one in its own process)
fn check_scaling(f: usize, n: usize) -> Result<(u64, u64, u64, u64), String> {
    let one = |n: usize| -> Result<(u64, u64), String> {
        let case = Case { decoder: 0, input_hex: String::new(), origin: format!("scale:{f}:{n}") };
        let r = hostile::run_one_confirmed("c15", &serde_json::to_string(&case).unwrap()).map_err(|how| if how.starts_with(hostile::STALL) { how } else { format!("{} at n = {n}: the process died ({how})", SCALE_FAMILIES[f]) })?;
        if !r.ok {
            return Err(format!("{} at n = {n}: {}", SCALE_FAMILIES[f], r.msg));
        }
        Ok((r.cpu_us, r.max_alloc))
    };
    let (mut t1, _) = one(n)?;
    let (mut t4, _) = one(4 * n)?;
    let grows = |t1: u64, t4: u64| t4 >= 100_000 && t4 > 8 * t1 + 30_000;
    let mut tries = 0;
    while grows(t1, t4) && tries < 2 {
        // the smaller input is re-measured towards its maximum, the larger one towards its minimum: noise cannot create a verdict
        t1 = t1.max(one(n)?.0);
        t4 = t4.min(one(4 * n)?.0);
        tries += 1;
    }
    if grows(t1, t4) {
        return Err(format!("{}: processing time grows faster than the input: n = {n} takes {} ms of CPU, 4n takes {} ms (linear growth would be about 4x, the limit is 8x + 30 ms)", SCALE_FAMILIES[f], t1 / 1000, t4 / 1000));
    }
    let (d1, i1) = scale_input(f, n);
    let _ = d1;
    let l4 = scale_input(f, 4 * n).1.len() as u64;
    Ok((t1, t4, i1.len() as u64, l4))
}

pub fn replay(_ctx: &mut Ctx, _stage: &str, case: &Value) -> Result<(), String> {
    if let (Some(f), Some(n)) = (case.get("scale_family").and_then(|v| v.as_u64()), case.get("n").and_then(|v| v.as_u64())) {
        return match check_scaling(f as usize, n as usize) {
            Ok(_) => Ok(()),
            Err(e) => {
                hostile::exit_if_stalled("C15", &e);
                Err(e)
            }
        };
    }
    let c: Case = serde_json::from_value(case.clone()).map_err(|e| format!("bad case: {e}"))?;
    match fails(&c) {
        None => Ok(()),
        Some(m) => {
            hostile::exit_if_stalled("C15", &m);
            Err(format!("{}: {m}", DECODERS[c.decoder % DECODERS.len()]))
        }
    }
}
