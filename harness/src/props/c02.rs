//! C02 — registration returns a credential that a standard relying party can verify.

use proptest::prelude::*;
use serde_json::{json, Value};

use crate::ceremony::{self as cm, History, Op, Oracles, StoreKind};
use crate::core::{search, Ctx, Search};
use crate::rt::Disc;

fn strategy() -> impl Strategy<Value = History> {
    let all_sites: Vec<usize> = (0..cm::SITES.len()).collect();
    (
        prop_oneof![3 => Just(StoreKind::Ref), 3 => Just(StoreKind::Memory), 1 => Just(StoreKind::OptionSlot), 1 => Just(StoreKind::RefInMutex), 1 => Just(StoreKind::RefInRwLock), 1 => Just(StoreKind::RefInArcMutex), 1 => Just(StoreKind::RefInArcRwLock)],
        prop_oneof![Just(Disc::Full), Just(Disc::ForcedDiscoverable)],
        // hmac-secret configurations under which a PRF request at registration cannot be refused (C09 owns the refusals)
        (cm::auth_cfg(), prop_oneof![2 => Just(crate::cer::HmacCfg::None), 1 => Just(crate::cer::HmacCfg::WithoutUv), 1 => Just(crate::cer::HmacCfg::WithoutUvMc)]).prop_map(|(mut c, h)| {
            c.hmac = h;
            c
        }),
        proptest::collection::vec(cm::reg_op(all_sites), 1..9),
    )
        .prop_map(|(store, disc, cfg, regs)| {
            // on the reference store (plain or inside a lock wrapper) one registration in eight meets a store that refuses the save
            let faulty = store.is_ref();
            History { store, disc, cfg, preload: vec![], ops: regs.into_iter().map(|r| if faulty && r.challenge.len() % 8 == 3 { let code = [0x28u8, 0x7F, 0x01, 0x2E][r.user_id.len() % 4]; Op::RegSaveFault(r, code) } else { Op::Reg(r) }).collect() }
        })
}

fn check(ctx: &mut Ctx, h: &History) -> Result<(), String> {
    let stats = cm::run_history(h, Oracles { c02: true, ..Default::default() })?;
    ctx.eval();
    ctx.evals_add(h.ops.len() as u64 - 1);
    ctx.class_n("registration/success", stats.reg_ok);
    ctx.class_n("registration/no-supported-algorithm", stats.reg_alg_fail);
    ctx.class_n("registration/other-error(measured)", stats.reg_unexpected_err);
    ctx.class(&format!("store/{:?}", h.store));
    for op in &h.ops {
        if let Op::RegSaveFault(..) = op {
            ctx.class("registration while the store refuses the save");
        }
        if let Op::Reg(r) | Op::RegSaveFault(r, _) = op {
            ctx.nontrivial(&(format!("{:?}", h.store), serde_json::to_string(r).unwrap()));
            ctx.class(match &r.cd {
                cm::CdMode::Default => "client-data/default",
                cm::CdMode::Extra(_) => "client-data/extra",
                cm::CdMode::Hash(_) => "client-data/caller-hash",
            });
            if r.challenge.is_empty() {
                ctx.class("challenge/empty");
            }
            if r.ext & 1 != 0 {
                ctx.class("extensions/credProps requested");
            }
            if r.ext & 2 != 0 {
                ctx.class(&format!("extensions/PRF requested ({:?})", h.cfg.hmac));
            }
            if r.exclude % 4 != 0 {
                ctx.class(["", "exclude-list/empty", "exclude-list/ids nobody holds", "exclude-list/ids of another RP (reference store)"][r.exclude as usize % 4]);
            }
        }
    }
    if stats.reg_unexpected_err > 0 {
        ctx.note("last_unexpected_error", json!(stats.last_error));
    }
    ctx.sample(&format!("history/{:?}/{}ops", h.store, h.ops.len().min(3)), || json!(h));
    Ok(())
}

pub fn run(ctx: &mut Ctx) {
    ctx.rule = "histories of 1-8 registrations into one store (reference store, MemoryStore, single-slot Option) over 9 (origin, RP ID) sites accepted under C01, with generated challenges (0..128 bytes), user ids/names, algorithm lists, client-data modes, UV requirements, resident-key selections, id lengths 0..255, counter on/off, AAGUIDs, attestation preferences, requested extensions (credProps, PRF with one or two inputs on authenticators without / with hmac-secret / with hmac-secret-mc) and exclude lists that exclude nothing (absent, empty, ids nobody holds, ids held for another RP). Since rounds 7/8: the reference store also inside the four lock wrappers, two Android sites with fingerprints whose base64 / base64url forms differ, the transports builder called last, one registration in eight while the store refuses the save. Non-trivial = a registration that succeeded or failed because of its algorithm list; distinct by (store kind, registration request).".into();
    ctx.assumptions = vec![
        "origins are pure-origin URLs; parameter types are always public-key".into(),
        "the authenticator supports ES256 only, so 'first supported entry' is observable as: success with -7 iff the list is empty or contains -7".into(),
        "for the single-slot Option store a registration replaces the slot; 'exactly one added' is asserted for the map-like stores".into(),
        "the relying-party verifier uses ciborium::Value, serde_json::Value and p256 as generic parsers; layout, base64url and comparisons are the harness's own".into(),
    ];
    let n = ctx.tier.pick(3_000u32, 1_200_000u32);
    match search(ctx, 2, n, strategy(), check) {
        Search::Pass => {}
        Search::Fail(h, msg) => ctx.violation("histories", json!(h), &msg),
    }
    if ctx.violations.is_empty() && ctx.class_count("registration/success") == 0 {
        eprintln!("C02: no registration succeeded - vacuous run ({:?})", ctx.extra.get("last_unexpected_error"));
        std::process::exit(2);
    }
}

pub fn replay(ctx: &mut Ctx, _stage: &str, case: &Value) -> Result<(), String> {
    let h: History = serde_json::from_value(case.clone()).map_err(|e| format!("bad case: {e}"))?;
    check(ctx, &h)
}
