//! C18 — the sealed CTAP2 API trait behaves exactly like the direct authenticator methods.
//! Differential check, run in isolated workers (a non-terminating / stack-overflowing trait
//! method kills the worker, which the parent attributes to the case).

use passkey_authenticator::{Authenticator, Ctap2Api};
use passkey_types::ctap2::extensions::{AuthenticatorPrfInputs, AuthenticatorPrfValues};
use passkey_types::ctap2::{get_assertion, make_credential};
use proptest::prelude::*;
use serde::{Deserialize, Serialize};
use serde_json::{json, Value};

use crate::cer::{self, AuthCfg, HmacCfg};
use crate::core::{h64, nth_value, Ctx};
use crate::hostile::{self, Body};
use crate::model::authdata;
use crate::model::util::{make_passkey, sha256, snap, verify_der, PkSnap};
use crate::rt::{block_on, Disc, RefStore, ScriptedUv, UvCall, UvScript};

const RPS: [&str; 2] = ["example.com", "other.example.org"];

#[derive(Clone, Debug, Serialize, Deserialize, PartialEq, Eq, Hash)]
pub struct Case {
    /// 0 getInfo, 1 makeCredential, 2 getAssertion
    pub op: u8,
    pub hmac: HmacCfg,
    pub counter_cfg: bool,
    pub disc: Disc,
    /// held credentials: (rp index, counter, stores user handle, secrets 0 none / 1 gated / 2 both)
    pub contents: Vec<(u8, Option<u32>, bool, u8)>,
    pub script: UvScript,
    pub rp: u8,
    pub rk: bool,
    pub up: bool,
    pub uv: bool,
    pub algs_supported: bool,
    pub pin_auth: bool,
    /// 0 absent, 1 empty, 2 names a miss, 3 names held credential k, 4 names a credential of the other RP,
    /// 5 names held credential k with an unknown descriptor type plus a well-typed miss, 6 only unknown-typed held ids
    pub list: u8,
    pub list_k: u8,
    pub prf: u8,
    /// takes the place of the first RP ID everywhere (held credentials and requests): any text of 0..80 bytes
    #[serde(default)]
    pub rp0: Option<String>,
    /// store faults armed on both sides before the call: (index of the fallible store call, status byte)
    #[serde(default)]
    pub faults: Vec<(u8, u8)>,
    /// makeCredential: the hmac-secret extension input (0 absent, 1 false, 2 true), next to or without a PRF input
    #[serde(default)]
    pub hmac_in: u8,
    /// transports the authenticator was configured with: 0 the default, 1 an empty list, 2 usb, 3 internal + hybrid
    #[serde(default)]
    pub transports: u8,
    /// getAssertion PRF inputs also carry per-credential entries: bit 0 one keyed by a held credential of the RP,
    /// bit 1 one keyed by an id nobody holds
    #[serde(default)]
    pub prf_by_cred: u8,
    /// makeCredential: length of the user handle (0 = the fixed 12-byte one)
    #[serde(default)]
    pub user_len: u8,
    /// makeCredential: user name, display name and RP name of about a hundred bytes (with multi-byte characters)
    #[serde(default)]
    pub long_labels: bool,
    /// before the judged call both authenticators serve (warmup % 5) earlier requests that ask for user verification -- the
    /// one side through the direct methods, the other through the trait -- while the user (warmup / 5) % 3 = 0 declines,
    /// 1 lets the prompt time out, 2 consents; each pair of results is compared as well
    #[serde(default)]
    pub warmup: u8,
    /// before everything else a request is started on each side whose user prompt does not answer at once, polled this
    /// many times (1..) and then dropped by its caller (a cancelled ceremony); 0 = none
    #[serde(default)]
    pub cancelled_first: u8,
    /// held credentials carry a user handle of this many bytes (0 = the 15-byte default); handles are opaque byte strings
    /// of any length as far as the store is concerned
    #[serde(default)]
    pub held_handle_len: u16,
}

fn rp_name(c: &Case, i: u8) -> String {
    match (&c.rp0, i % 2) {
        (Some(s), 0) => s.clone(),
        _ => RPS[i as usize % 2].to_string(),
    }
}

fn cred_id(k: usize) -> Vec<u8> {
    format!("c18-credential-{k:03}").into_bytes()
}

fn build(c: &Case) -> (Authenticator<RefStore, ScriptedUv>, RefStore, ScriptedUv) {
    let creds = c
        .contents
        .iter()
        .enumerate()
        .map(|(k, (rp, counter, uh, hm))| {
            let h = match hm % 3 {
                0 => None,
                1 => Some((sha256(format!("g{k}").as_bytes()).to_vec(), None)),
                _ => Some((sha256(format!("g{k}").as_bytes()).to_vec(), Some(sha256(format!("p{k}").as_bytes()).to_vec()))),
            };
            let long: Vec<u8> = (0..c.held_handle_len).map(|i| b'A' + (i % 26) as u8).collect();
            make_passkey(300 + k as u64, &rp_name(c, *rp), &cred_id(k), uh.then_some(if c.held_handle_len == 0 { b"c18-user-handle".as_slice() } else { long.as_slice() }), *counter, h)
        })
        .collect();
    let store = RefStore::with(c.disc, creds);
    store.set_faults(c.faults.iter().map(|(i, code)| ((*i % 4) as usize, *code)).collect());
    let uv = ScriptedUv::new(c.script.clone());
    let auth = cer::build_authenticator(store.clone(), uv.clone(), &AuthCfg { counter: c.counter_cfg, hmac: c.hmac, ..Default::default() });
    use passkey_types::webauthn::AuthenticatorTransport as T;
    let auth = match c.transports % 4 {
        0 => auth,
        1 => auth.transports(vec![]),
        2 => auth.transports(vec![T::Usb]),
        _ => auth.transports(vec![T::Internal, T::Hybrid]),
    };
    (auth, store, uv)
}

fn list(c: &Case) -> Option<Vec<passkey_types::webauthn::PublicKeyCredentialDescriptor>> {
    let n = c.contents.len();
    let rp = c.rp % 2;
    let own = |n: usize| -> Vec<usize> { (0..n).filter(|k| c.contents[*k].0 % 2 == rp).collect() };
    match c.list % 8 {
        // every held credential of the RP, last one first, the first of them named twice
        7 => {
            let mut o = own(n);
            o.reverse();
            let mut l: Vec<_> = o.iter().map(|k| cer::descriptor(&cred_id(*k))).collect();
            if let Some(k) = o.first() {
                l.push(cer::descriptor(&cred_id(*k)));
            }
            Some(l)
        }
        5 => {
            let o = own(n);
            Some(vec![cer::descriptor_ty(&o.get(c.list_k as usize % o.len().max(1)).map(|k| cred_id(*k)).unwrap_or(b"nothing-held".to_vec()), false), cer::descriptor(b"well-typed-miss")])
        }
        6 => Some(own(n).iter().map(|k| cer::descriptor_ty(&cred_id(*k), false)).collect()),
        0 => None,
        1 => Some(vec![]),
        2 => Some(vec![cer::descriptor(b"not-held-anywhere")]),
        3 => {
            let own: Vec<usize> = own(n);
            Some(vec![cer::descriptor(&own.get(c.list_k as usize % own.len().max(1)).map(|k| cred_id(*k)).unwrap_or(b"nothing-held".to_vec()))])
        }
        _ => {
            let other: Vec<usize> = (0..n).filter(|k| c.contents[*k].0 % 2 != rp).collect();
            Some(vec![cer::descriptor(&other.get(c.list_k as usize % other.len().max(1)).map(|k| cred_id(*k)).unwrap_or(b"nothing-held".to_vec()))])
        }
    }
}

fn salts(n: u8) -> AuthenticatorPrfInputs {
    AuthenticatorPrfInputs { eval: (n > 0).then(|| AuthenticatorPrfValues { first: [7u8; 32], second: (n > 1).then_some([8u8; 32]) }), eval_by_credential: None }
}

/// PRF inputs of an assertion, optionally with per-credential entries
fn salts_ga(c: &Case) -> AuthenticatorPrfInputs {
    let mut s = salts(c.prf);
    if c.prf_by_cred % 4 != 0 {
        let mut m = std::collections::HashMap::new();
        if c.prf_by_cred & 1 != 0 {
            let rp = c.rp % 2;
            let own: Vec<usize> = (0..c.contents.len()).filter(|k| c.contents[*k].0 % 2 == rp).collect();
            let id = own.get(c.list_k as usize % own.len().max(1)).map(|k| cred_id(*k)).unwrap_or(b"nothing-held".to_vec());
            m.insert(passkey_types::Bytes::from(id), AuthenticatorPrfValues { first: [0x21u8; 32], second: Some([0x22u8; 32]) });
        }
        if c.prf_by_cred & 2 != 0 {
            m.insert(passkey_types::Bytes::from(b"c18-id-nobody-holds".to_vec()), AuthenticatorPrfValues { first: [0x23u8; 32], second: None });
        }
        s.eval_by_credential = Some(m);
    }
    s
}

fn mc_request(c: &Case) -> make_credential::Request {
    make_credential::Request {
        client_data_hash: vec![1u8; 32].into(),
        rp: make_credential::PublicKeyCredentialRpEntity { id: rp_name(c, c.rp), name: Some(if c.long_labels { format!("relying party {}", "näme ".repeat(20)) } else { "rp".into() }) },
        user: passkey_types::webauthn::PublicKeyCredentialUserEntity { id: if c.user_len == 0 { b"c18-new-user".to_vec() } else { vec![0x75; [1usize, 63, 64, 65, 66, 128, 200, 255][c.user_len as usize % 8]] }.into(), display_name: if c.long_labels { format!("displäy {}", "näme ".repeat(15)) } else { "d".into() }, name: if c.long_labels { format!("{}@example.com", "ü".repeat(40)) } else { "n".into() } },
        pub_key_cred_params: cer::params(if c.algs_supported { &[-257, -7] } else { &[-257] }),
        exclude_list: list(c),
        extensions: (c.prf > 0 || c.hmac_in % 3 > 0).then(|| make_credential::ExtensionInputs { hmac_secret: [None, Some(false), Some(true)][c.hmac_in as usize % 3], hmac_secret_mc: None, prf: (c.prf > 0).then(|| salts(c.prf)) }),
        options: make_credential::Options { rk: c.rk, up: c.up, uv: c.uv },
        pin_auth: c.pin_auth.then(|| vec![1u8; 16].into()),
        pin_protocol: c.pin_auth.then_some(1),
    }
}

fn ga_request(c: &Case) -> get_assertion::Request {
    get_assertion::Request {
        rp_id: rp_name(c, c.rp),
        client_data_hash: vec![2u8; 32].into(),
        allow_list: list(c),
        extensions: (c.prf > 0 || c.prf_by_cred % 4 != 0).then(|| get_assertion::ExtensionInputs { hmac_secret: None, prf: Some(salts_ga(c)) }),
        options: get_assertion::Options { rk: c.rk, up: c.up, uv: c.uv },
        pin_auth: c.pin_auth.then(|| vec![1u8; 16].into()),
        pin_protocol: c.pin_auth.then_some(1),
    }
}

/// abstract store state: known records as they are, new records by shape
fn abstract_state(initial: &[PkSnap], now: &[PkSnap]) -> Vec<String> {
    let mut v: Vec<String> = now
        .iter()
        .map(|s| {
            if initial.iter().any(|i| i.id == s.id) {
                format!("{:?}", s)
            } else {
                format!("NEW rp={} idlen={} handle={:?} counter={:?} gated={} plain={} key_ok={}", s.rp_id, s.id.len(), s.user_handle, s.counter, s.hmac_uv.is_some(), s.hmac_no_uv.is_some(), crate::model::util::is_complete_record(s).is_ok())
            }
        })
        .collect();
    v.sort();
    v
}

fn uv_log(l: &[UvCall]) -> String {
    format!("{l:?}")
}

pub fn check(c: &Case) -> Result<&'static str, String> {
    let (mut a, sa, ua) = build(c);
    let (mut b, sb, ub) = build(c);
    let initial: Vec<PkSnap> = sa.creds().iter().map(snap).collect();
    let class: &'static str;
    if c.cancelled_first > 0 {
        // the prompt suspends; each caller gives up after a few polls
        let slow = UvScript { yields: 50, verification_enabled: Some(true), outcome: Ok((true, true)), ..c.script.clone() };
        ua.set(slow.clone());
        ub.set(slow);
        sa.set_faults(Default::default());
        sb.set_faults(Default::default());
        let polls = c.cancelled_first as usize % 8 + 1;
        if c.cancelled_first % 2 == 0 {
            let mut t = crate::rt::Task::new(a.get_assertion(ga_request(c)));
            for _ in 0..polls {
                if t.poll() {
                    break;
                }
            }
            t.cancel();
            drop(t);
            let mut t = crate::rt::Task::new(Ctap2Api::get_assertion(&mut b, ga_request(c)));
            for _ in 0..polls {
                if t.poll() {
                    break;
                }
            }
            t.cancel();
        } else {
            let mut t = crate::rt::Task::new(a.make_credential(mc_request(c)));
            for _ in 0..polls {
                if t.poll() {
                    break;
                }
            }
            t.cancel();
            drop(t);
            let mut t = crate::rt::Task::new(Ctap2Api::make_credential(&mut b, mc_request(c)));
            for _ in 0..polls {
                if t.poll() {
                    break;
                }
            }
            t.cancel();
        }
        ua.set(c.script.clone());
        ub.set(c.script.clone());
        let faults: std::collections::BTreeMap<usize, u8> = c.faults.iter().map(|(i, code)| ((*i % 4) as usize, *code)).collect();
        sa.set_faults(faults.clone());
        sb.set_faults(faults);
    }
    if c.warmup % 5 > 0 {
        let outcome = [Err(0x27u8), Err(0x2F), Ok((true, true))][(c.warmup / 5) as usize % 3];
        let warm = UvScript { outcome, verification_enabled: Some(true), ..c.script.clone() };
        ua.set(warm.clone());
        ub.set(warm);
        sa.set_faults(Default::default());
        sb.set_faults(Default::default());
        for k in 0..c.warmup % 5 {
            let code = |r: Result<(), passkey_types::ctap2::StatusCode>| r.err().map(u8::from);
            // (a consenting user only answers assertions here: a registration would mint a different random id on each side)
            let (x, y) = if k % 2 == 0 || outcome.is_ok() {
                let req = || {
                    let mut r = ga_request(c);
                    r.options.uv = true;
                    r
                };
                (code(block_on(a.get_assertion(req())).map(|_| ())), code(block_on(Ctap2Api::get_assertion(&mut b, req())).map(|_| ())))
            } else {
                let req = || {
                    let mut r = mc_request(c);
                    r.options.uv = true;
                    r
                };
                (code(block_on(a.make_credential(req())).map(|_| ())), code(block_on(Ctap2Api::make_credential(&mut b, req())).map(|_| ())))
            };
            if x != y {
                return Err(format!("earlier request #{k} (user verification asked, user outcome {outcome:?}): the direct call ends with {x:02X?}, the trait with {y:02X?}"));
            }
        }
        ua.set(c.script.clone());
        ub.set(c.script.clone());
        let faults: std::collections::BTreeMap<usize, u8> = c.faults.iter().map(|(i, code)| ((*i % 4) as usize, *code)).collect();
        sa.set_faults(faults.clone());
        sb.set_faults(faults);
    }
    match c.op % 3 {
        0 => {
            let x = block_on(a.get_info());
            let y = block_on(Ctap2Api::get_info(&b));
            if x != y {
                return Err(format!("getInfo through the trait differs from the direct call: {y:?} vs {x:?}"));
            }
            // the same again after the state getInfo reports has changed (capabilities of the user validation
            // method, store capability)
            let mut s2 = c.script.clone();
            s2.verification_enabled = match s2.verification_enabled {
                Some(true) => Some(false),
                Some(false) => None,
                None => Some(true),
            };
            s2.presence_enabled = !s2.presence_enabled;
            ua.set(s2.clone());
            ub.set(s2);
            let nd = match c.disc {
                Disc::Full => Disc::OnlyNonDiscoverable,
                Disc::OnlyNonDiscoverable => Disc::ForcedDiscoverable,
                Disc::ForcedDiscoverable => Disc::Full,
            };
            sa.0.lock().unwrap().disc = nd;
            sb.0.lock().unwrap().disc = nd;
            let x2 = block_on(a.get_info());
            let y2 = block_on(Ctap2Api::get_info(&b));
            if x2 != y2 {
                return Err(format!("getInfo through the trait differs from the direct call after the authenticator's capabilities changed: {y2:?} vs {x2:?}"));
            }
            if x2 == x {
                return Err("harness: the capability change is not reflected by the direct getInfo".into());
            }
            class = "getInfo";
        }
        1 => {
            let x = block_on(a.make_credential(mc_request(c)));
            let y = block_on(Ctap2Api::make_credential(&mut b, mc_request(c)));
            match (x, y) {
                (Err(e1), Err(e2)) => {
                    let (e1, e2) = (u8::from(e1), u8::from(e2));
                    if e1 != e2 {
                        return Err(format!("makeCredential: direct call fails with 0x{e1:02X}, the trait with 0x{e2:02X}"));
                    }
                    class = "makeCredential/error";
                }
                (Ok(r1), Ok(r2)) => {
                    let (d1, d2) = (authdata::decode(&r1.auth_data.to_vec())?, authdata::decode(&r2.auth_data.to_vec())?);
                    if (d1.rp_id_hash, d1.flags, d1.counter) != (d2.rp_id_hash, d2.flags, d2.counter) {
                        return Err(format!("makeCredential: authenticator data differs (flags 0x{:02X} vs 0x{:02X}, counter {} vs {})", d1.flags, d2.flags, d1.counter, d2.counter));
                    }
                    let (a1, a2) = (d1.att.ok_or("no attested data (direct)")?, d2.att.ok_or("no attested data (trait)")?);
                    if a1.aaguid != a2.aaguid || a1.cred_id.len() != a2.cred_id.len() {
                        return Err("makeCredential: attested credential data shape differs".into());
                    }
                    authdata::public_es256_key(&a2.key).map_err(|e| format!("makeCredential through the trait: {e}"))?;
                    if r1.fmt != r2.fmt || format!("{:?}", r1.att_stmt) != format!("{:?}", r2.att_stmt) || d1.ext.is_some() != d2.ext.is_some() {
                        return Err("makeCredential: fmt / attStmt / extension presence differ".into());
                    }
                    let shape = |r: &make_credential::Response| r.unsigned_extension_outputs.as_ref().map(|u| u.prf.as_ref().map(|p| (p.enabled, p.results.as_ref().map(|v| v.second.is_some()))));
                    if shape(&r1) != shape(&r2) {
                        return Err(format!("makeCredential: extension outputs differ in shape: {:?} vs {:?}", shape(&r1), shape(&r2)));
                    }
                    class = "makeCredential/ok";
                }
                (x, y) => return Err(format!("makeCredential: direct call {} but the trait {}", if x.is_ok() { "succeeds".to_string() } else { format!("fails with 0x{:02X}", u8::from(x.err().unwrap())) }, if y.is_ok() { "succeeds".to_string() } else { format!("fails with 0x{:02X}", u8::from(y.err().unwrap())) })),
            }
        }
        _ => {
            let x = block_on(a.get_assertion(ga_request(c)));
            let y = block_on(Ctap2Api::get_assertion(&mut b, ga_request(c)));
            match (x, y) {
                (Err(e1), Err(e2)) => {
                    let (e1, e2) = (u8::from(e1), u8::from(e2));
                    if e1 != e2 {
                        return Err(format!("getAssertion: direct call fails with 0x{e1:02X}, the trait with 0x{e2:02X}"));
                    }
                    class = "getAssertion/error";
                }
                (Ok(r1), Ok(r2)) => {
                    let id1 = r1.credential.as_ref().map(|c| c.id.to_vec());
                    let id2 = r2.credential.as_ref().map(|c| c.id.to_vec());
                    if id1 != id2 {
                        return Err("getAssertion: a different credential is selected through the trait".into());
                    }
                    if r1.auth_data.to_vec() != r2.auth_data.to_vec() {
                        return Err("getAssertion: authenticator data differs between the trait and the direct call".into());
                    }
                    let used = initial.iter().find(|s| Some(&s.id) == id1.as_ref()).ok_or("unknown credential used")?;
                    for (who, r) in [("direct", &r1), ("trait", &r2)] {
                        let mut msg = r.auth_data.to_vec();
                        msg.extend_from_slice(&[2u8; 32]);
                        verify_der(used.x.as_ref().unwrap(), used.y.as_ref().unwrap(), &msg, &r.signature).map_err(|e| format!("getAssertion ({who}): {e}"))?;
                    }
                    let user = |r: &get_assertion::Response| r.user.as_ref().map(|u| (u.id.to_vec(), u.name.clone(), u.display_name.clone()));
                    if user(&r1) != user(&r2) {
                        return Err(format!("getAssertion: user entity differs: direct {:?}, trait {:?}", user(&r1).map(|u| String::from_utf8_lossy(&u.0).to_string()), user(&r2).map(|u| String::from_utf8_lossy(&u.0).to_string())));
                    }
                    if format!("{:?}", r1.unsigned_extension_outputs) != format!("{:?}", r2.unsigned_extension_outputs) || (r1.number_of_credentials, r1.user_selected) != (r2.number_of_credentials, r2.user_selected) || r1.large_blob_key.is_some() != r2.large_blob_key.is_some() {
                        return Err("getAssertion: extension outputs / optional members differ".into());
                    }
                    class = "getAssertion/ok";
                }
                (x, y) => return Err(format!("getAssertion: direct call {} but the trait {}", if x.is_ok() { "succeeds".to_string() } else { format!("fails with 0x{:02X}", u8::from(x.err().unwrap())) }, if y.is_ok() { "succeeds".to_string() } else { format!("fails with 0x{:02X}", u8::from(y.err().unwrap())) })),
            }
        }
    }
    // same effect on the store and the same interaction with the user
    let fa: Vec<PkSnap> = sa.creds().iter().map(snap).collect();
    let fb: Vec<PkSnap> = sb.creds().iter().map(snap).collect();
    if abstract_state(&initial, &fa) != abstract_state(&initial, &fb) {
        return Err("the store ends in a different state through the trait than through the direct call".into());
    }
    if uv_log(&ua.calls()) != uv_log(&ub.calls()) {
        return Err(format!("user validation was consulted differently: direct {:?}, trait {:?}", ua.calls().len(), ub.calls().len()));
    }
    let (la, lb) = (sa.log(), sb.log());
    if la.iter().map(|c| c.kind()).collect::<Vec<_>>() != lb.iter().map(|c| c.kind()).collect::<Vec<_>>() {
        return Err("the sequence of store calls differs between the trait and the direct call".into());
    }
    // what the store is told (ids of new credentials are random and left out)
    let told = |l: &[crate::rt::StoreCall]| -> Vec<String> {
        l.iter()
            .map(|c| match c {
                crate::rt::StoreCall::Find { ids, rp_id, .. } => format!("find {ids:?} {rp_id}"),
                crate::rt::StoreCall::Save { cred_rp, rp_arg, user_id, rk, up, uv, labels, .. } => format!("save {cred_rp} {rp_arg} {user_id:?} {rk} {up} {uv} {labels:?}"),
                crate::rt::StoreCall::Update { cred_id, counter, .. } => format!("update {cred_id:?} {counter:?}"),
                crate::rt::StoreCall::Info => "info".into(),
            })
            .collect()
    };
    if told(&la) != told(&lb) {
        return Err(format!("the store is told different things through the trait than through the direct call: {:?} vs {:?}", told(&lb), told(&la)).chars().take(700).collect());
    }
    Ok(class)
}

fn strategy() -> impl Strategy<Value = Case> {
    let script = (any::<bool>(), prop_oneof![4 => Just(Some(true)), 1 => Just(Some(false)), 1 => Just(None)], prop_oneof![6 => Just(Ok((true, true))), 3 => Just(Ok((true, false))), 1 => Just(Ok((false, true))), 1 => Just(Ok((false, false))), 1 => Just(Err(0x27u8)), 1 => Just(Err(0x2F))])
        .prop_map(|(presence_enabled, verification_enabled, outcome)| UvScript { presence_enabled, verification_enabled, outcome, yields: 0 });
    (
        (prop_oneof![1 => Just(0u8), 4 => Just(1u8), 5 => Just(2u8)], prop_oneof![Just(HmacCfg::None), Just(HmacCfg::UvOnly), Just(HmacCfg::UvOnlyMc), Just(HmacCfg::WithoutUv), Just(HmacCfg::WithoutUvMc)], any::<bool>(), prop_oneof![3 => Just(Disc::Full), 1 => Just(Disc::OnlyNonDiscoverable), 2 => Just(Disc::ForcedDiscoverable)]),
        proptest::collection::vec((0u8..2, prop_oneof![Just(None), Just(Some(0u32)), Just(Some(77)), Just(Some(u32::MAX))], any::<bool>(), 0u8..3), 0..5),
        script,
        (0u8..2, proptest::bool::weighted(0.2), proptest::bool::weighted(0.85), any::<bool>(), proptest::bool::weighted(0.85), proptest::bool::weighted(0.15), 0u8..8, any::<u8>(), 0u8..3),
    )
        .prop_map(|((op, hmac, counter_cfg, disc), contents, script, (rp, rk, up, uv, algs_supported, pin_auth, list, list_k, prf))| Case { op, hmac, counter_cfg, disc, contents, script, rp, rk, up, uv, algs_supported, pin_auth, list, list_k, prf, rp0: None, faults: vec![], hmac_in: 0, transports: 0, prf_by_cred: 0, user_len: 0, long_labels: false, warmup: 0, cancelled_first: 0, held_handle_len: 0 })
        .prop_flat_map(|c| {
            // RP IDs of any shape and length (the API takes any string), and store calls failing with any status byte
            let ch = prop_oneof![6 => "[a-z0-9.-]", 2 => "[\u{80}-\u{7ff}]", 1 => "[\u{800}-\u{ffff}]", 1 => "[\u{10000}-\u{10ffff}]"];
            let rp0 = proptest::option::weighted(0.35, proptest::collection::vec(ch, 0..70).prop_map(|v| v.concat()));
            let faults = prop_oneof![3 => Just(vec![]), 2 => proptest::collection::vec((0u8..4, prop_oneof![3 => any::<u8>(), 1 => Just(0x2Eu8), 1 => Just(0x38), 1 => Just(0x01)]), 1..3)];
            (Just(c), rp0, faults, prop_oneof![2 => Just(0u8), 1 => 1u8..3], prop_oneof![2 => Just(0u8), 1 => 1u8..4], prop_oneof![2 => Just(0u8), 1 => 1u8..4], prop_oneof![2 => Just(0u8), 1 => 1u8..9]).prop_map(|(mut c, rp0, faults, hmac_in, transports, prf_by_cred, user_len)| {
                c.rp0 = rp0;
                c.faults = faults;
                c.hmac_in = hmac_in;
                c.transports = transports;
                c.prf_by_cred = prf_by_cred;
                c.user_len = user_len;
                c.long_labels = (user_len + prf_by_cred) % 3 == 1;
                // a third of the cases are served by authenticators that have answered earlier requests
                c.warmup = if (hmac_in + transports + user_len) % 3 == 0 { c.list_k % 15 } else { 0 };
                // a sixth start after a cancelled request; a sixth hold long user handles (up to ~1.3 kB)
                c.cancelled_first = if (hmac_in + transports * 2 + user_len) % 6 == 1 { 1 + c.list_k % 16 } else { 0 };
                c.held_handle_len = if (hmac_in * 2 + transports + user_len) % 6 == 2 { 64 + c.list_k as u16 * 5 } else { 0 };
                c
            })
        })
}

/// the first 1 024 cases of every run are fixed: every status byte as the error of the user-validation step (512: makeCredential
/// and getAssertion) and as the status of a failing first store call (512), on requests that ask for user verification
pub const FIXED_CASES: u64 = 1024;

pub fn gen_case(seed: u64, i: u64) -> Case {
    if i < FIXED_CASES {
        let mut c: Case = nth_value(h64(&(0u64, i % 5, "c18-fixed")), &strategy());
        let byte = (i % 256) as u8;
        c.op = 1 + ((i / 256) % 2) as u8;
        c.up = true;
        c.uv = true;
        c.pin_auth = false;
        c.algs_supported = true;
        c.rp0 = None;
        c.warmup = 0;
        c.cancelled_first = 0;
        c.script = UvScript::verified();
        c.faults = vec![];
        if i < 512 {
            c.script.outcome = Err(byte);
        } else {
            c.faults = vec![(0, byte)];
        }
        return c;
    }
    nth_value(h64(&(seed, i, "c18")), &strategy())
}

fn body_for(case: Case) -> (Option<usize>, Box<dyn FnMut() -> Body + Send>) {
    let key = h64(&case);
    (
        None,
        Box::new(move || {
            let r = check(&case);
            let class = match &r {
                Ok(c) => c.to_string(),
                Err(_) => "mismatch".into(),
            };
            let class = format!("{class}{}{}", if case.faults.is_empty() { "" } else { "+store-fault" }, if case.rp0.is_some() { "+free-text-rp" } else { "" });
            Body { class, result: r.map(|_| ()), nontrivial: case.op % 3 != 0, key, sample: Some(json!(case)) }
        }),
    )
}

pub fn worker(args: &[String]) -> i32 {
    if args[0] == "c18one" {
        let Ok(case) = serde_json::from_str::<Case>(&hostile::one_arg(&args[1])) else { return 2 };
        let (len, body) = body_for(case);
        return hostile::worker_one(len, body);
    }
    let seed: u64 = args[1].parse().unwrap_or(0);
    let first: u64 = args[2].parse().unwrap_or(0);
    let stride: u64 = args[3].parse().unwrap_or(1);
    let end: u64 = args[4].parse().unwrap_or(0);
    hostile::worker_loop(first, stride, end, &move |i| body_for(gen_case(seed, i)))
}

fn fails(case: &Case) -> Option<String> {
    match hostile::run_one_confirmed("c18", &serde_json::to_string(case).unwrap()) {
        Ok(r) if r.ok => None,
        Ok(r) => Some(r.msg),
        Err(how) if how.starts_with(hostile::STALL) => Some(how),
        Err(how) => Some(format!("the call through the trait does not terminate normally: {how} (stack overflow / abort)")),
    }
}

/// shrink a failing case field by field towards simpler values
fn minimise(case: &Case) -> Case {
    let mut best = case.clone();
    let candidates: Vec<Box<dyn Fn(&Case) -> Case>> = vec![
        Box::new(|c| Case { faults: vec![], ..c.clone() }),
        Box::new(|c| Case { faults: c.faults.iter().take(1).cloned().collect(), ..c.clone() }),
        Box::new(|c| Case { rp0: None, ..c.clone() }),
        Box::new(|c| Case { hmac_in: 0, ..c.clone() }),
        Box::new(|c| Case { transports: 0, ..c.clone() }),
        Box::new(|c| Case { prf_by_cred: 0, ..c.clone() }),
        Box::new(|c| Case { user_len: 0, ..c.clone() }),
        Box::new(|c| Case { long_labels: false, ..c.clone() }),
        Box::new(|c| Case { warmup: 0, ..c.clone() }),
        Box::new(|c| Case { cancelled_first: 0, ..c.clone() }),
        Box::new(|c| Case { held_handle_len: 0, ..c.clone() }),
        Box::new(|c| Case { contents: vec![], ..c.clone() }),
        Box::new(|c| Case { contents: c.contents.iter().take(1).cloned().collect(), ..c.clone() }),
        Box::new(|c| Case { prf: 0, ..c.clone() }),
        Box::new(|c| Case { pin_auth: false, ..c.clone() }),
        Box::new(|c| Case { list: 0, ..c.clone() }),
        Box::new(|c| Case { hmac: HmacCfg::None, ..c.clone() }),
        Box::new(|c| Case { rk: false, ..c.clone() }),
        Box::new(|c| Case { script: UvScript::verified(), ..c.clone() }),
        Box::new(|c| Case { up: true, uv: true, ..c.clone() }),
        Box::new(|c| Case { disc: Disc::Full, counter_cfg: false, ..c.clone() }),
        Box::new(|c| Case { algs_supported: true, ..c.clone() }),
    ];
    for f in &candidates {
        let cand = f(&best);
        if cand != best && fails(&cand).is_some_and(|m| !m.starts_with(hostile::STALL)) {
            best = cand;
        }
    }
    best
}

pub fn run(ctx: &mut Ctx) {
    ctx.rule = "requests for getInfo / makeCredential / getAssertion (valid and failing: unsupported algorithms, rk on a non-discoverable store, pin-auth, up=false, denied or failing user validation, allow/exclude lists that are absent/empty/miss/hit/foreign, PRF requests, an explicit hmac-secret input of false / true with or without a PRF input, per-credential PRF inputs keyed by a held / an unknown id with and without an allow list, user handles of 1-255 bytes, user / RP labels of about a hundred bytes, allow lists naming every held credential in reverse order with a repeat); what the store is told in every call is compared as well on authenticators configured with the default / an empty / other transport lists, with generated store contents (0-4 credentials over two RPs, counters incl. max, with/without user handle and PRF secrets), store capability, hmac-secret configuration and user-validation behaviour, RP IDs that are arbitrary text of 0-70 characters (ASCII and 2/3/4-byte characters), and store calls that fail with any status byte (both sides armed alike); two authenticators are built from the same description, one is driven through <Authenticator as Ctap2Api>, the other through the direct methods, each case in an isolated worker with an 8 MiB stack and CPU watchdog. Since rounds 7/8: authenticators that answered 1-4 earlier uv requests on both sides, a cancelled request on each side first, held user handles of up to 1.3 kB. Non-trivial = makeCredential / getAssertion pairs; distinct by case.".into();
    ctx.assumptions = vec![
        "results are compared by status byte (errors), by authenticator data / selected credential / user entity / extension outputs and by signature validity under the stored key (successes; new keys and ids are random so registrations are compared by shape), and by the abstract store state, the user-validation call log and the sequence of store calls".into(),
        "termination: a worker that dies or exceeds 10 s of CPU is attributed to the case it had started".into(),
    ];
    let total = ctx.tier.pick(20_000u64, 400_000u64);
    let out = hostile::run_cases("c18", ctx.seed, total, 16);
    let mut failures: Vec<(Case, String)> = vec![];
    for r in &out.reports {
        ctx.eval();
        ctx.class(&r.class);
        if r.nontrivial {
            ctx.nontrivial(&r.key);
        }
        if let Some(s) = &r.sample {
            ctx.sample(&r.class, || s.clone());
        }
        if !r.ok {
            failures.push((gen_case(ctx.seed, r.i), r.msg.clone()));
        }
    }
    for (i, how) in &out.deaths {
        ctx.eval();
        failures.push((gen_case(ctx.seed, *i), format!("the call through the trait does not terminate normally: worker {how} (stack overflow / abort)")));
    }
    ctx.note("worker_deaths", json!(out.deaths.len()));
    let mut seen = std::collections::HashSet::new();
    let mut unconfirmed = 0u64;
    for (case, msg) in failures {
        let sig: String = format!("{}|{}", case.op % 3, msg.chars().take(40).collect::<String>());
        if seen.contains(&sig) || seen.len() >= 3 {
            continue;
        }
        // confirm in a fresh process of its own (a worker killed from outside does not reproduce)
        let Some(msg) = fails(&case) else {
            unconfirmed += 1;
            continue;
        };
        hostile::exit_if_stalled("C18", &msg);
        seen.insert(sig);
        let min = minimise(&case);
        let m2 = fails(&min).filter(|m| !m.starts_with(hostile::STALL)).unwrap_or(msg);
        ctx.violation(&format!("differential-{}", seen.len()), json!(min), &m2);
    }
    ctx.note("failures_not_reproduced_in_isolation", json!(unconfirmed));
    if let Some(why) = out.inconclusive {
        if ctx.violations.is_empty() {
            eprintln!("C18 inconclusive: {why}");
            std::process::exit(2);
        }
    }
}

pub fn replay(_ctx: &mut Ctx, _stage: &str, case: &Value) -> Result<(), String> {
    let c: Case = serde_json::from_value(case.clone()).map_err(|e| format!("bad case: {e}"))?;
    match fails(&c) {
        None => Ok(()),
        Some(m) => {
            hostile::exit_if_stalled("C18", &m);
            Err(m)
        }
    }
}
