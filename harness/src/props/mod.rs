use crate::core::Ctx;
use serde_json::Value;

pub mod c01;
pub mod c02;
pub mod c03;
pub mod c04;
pub mod c05;
pub mod c06;
pub mod c07;
pub mod c08;
pub mod c09;
pub mod c10;
pub mod c11;
pub mod c12;
pub mod c13;
pub mod c14;
pub mod c15;
pub mod c16;
pub mod c17;
pub mod c18;
pub mod c19;

pub const ALL: &[&str] = &[
    "C01", "C02", "C03", "C04", "C05", "C06", "C07", "C08", "C09", "C10", "C11", "C12", "C13", "C14", "C15", "C16", "C17", "C18", "C19",
];

pub fn run(ctx: &mut Ctx) {
    match ctx.id {
        "C01" => c01::run(ctx),
        "C02" => c02::run(ctx),
        "C03" => c03::run(ctx),
        "C04" => c04::run(ctx),
        "C05" => c05::run(ctx),
        "C06" => c06::run(ctx),
        "C07" => c07::run(ctx),
        "C08" => c08::run(ctx),
        "C09" => c09::run(ctx),
        "C10" => c10::run(ctx),
        "C11" => c11::run(ctx),
        "C12" => c12::run(ctx),
        "C13" => c13::run(ctx),
        "C14" => c14::run(ctx),
        "C15" => c15::run(ctx),
        "C16" => c16::run(ctx),
        "C17" => c17::run(ctx),
        "C18" => c18::run(ctx),
        "C19" => c19::run(ctx),
        other => {
            eprintln!("{other}: no engine built yet");
            std::process::exit(2);
        }
    }
}

pub fn replay(ctx: &mut Ctx, stage: &str, case: &Value) -> Result<(), String> {
    match ctx.id {
        "C01" => c01::replay(ctx, stage, case),
        "C02" => c02::replay(ctx, stage, case),
        "C03" => c03::replay(ctx, stage, case),
        "C04" => c04::replay(ctx, stage, case),
        "C05" => c05::replay(ctx, stage, case),
        "C06" => c06::replay(ctx, stage, case),
        "C07" => c07::replay(ctx, stage, case),
        "C08" => c08::replay(ctx, stage, case),
        "C09" => c09::replay(ctx, stage, case),
        "C10" => c10::replay(ctx, stage, case),
        "C11" => c11::replay(ctx, stage, case),
        "C12" => c12::replay(ctx, stage, case),
        "C13" => c13::replay(ctx, stage, case),
        "C14" => c14::replay(ctx, stage, case),
        "C15" => c15::replay(ctx, stage, case),
        "C16" => c16::replay(ctx, stage, case),
        "C17" => c17::replay(ctx, stage, case),
        "C18" => c18::replay(ctx, stage, case),
        "C19" => c19::replay(ctx, stage, case),
        other => Err(format!("{other}: no engine built yet")),
    }
}

pub fn worker(args: &[String]) -> i32 {
    match args.first().map(|s| s.as_str()) {
        Some("c15") | Some("c15one") => c15::worker(args),
        Some("c18") | Some("c18one") => c18::worker(args),
        _ => 2,
    }
}
