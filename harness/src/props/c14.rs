//! C14 — WebAuthn JSON parses leniently, re-parses when emitted, client data keeps order.

use std::panic::{catch_unwind, AssertUnwindSafe};

use passkey_client::{Client, DefaultClientData, DefaultClientDataWithExtra};
use passkey_types::webauthn::{AuthenticatedPublicKeyCredential, ClientDataType, CollectedClientData, CreatedPublicKeyCredential, CredentialCreationOptions, CredentialRequestOptions};
use passkey_types::{encoding, Bytes};
use proptest::prelude::*;
use serde::{Deserialize, Serialize};
use serde_json::{json, Map, Value};

use crate::cer::{self, AuthCfg, HmacCfg};
use crate::ceremony::{json_extra, SITES};
use crate::core::{search, Ctx, Search};
use crate::model::rpid::{HProvider, ProviderKind};
use crate::model::util::{b64std, b64std_padded, b64url, b64url_padded};
use crate::rt::{block_on, Disc, RefStore, ScriptedUv, UvScript};

// ------------------------------------------------------------------ option value trees

#[derive(Clone, Debug, Serialize, Deserialize, PartialEq, Eq, Hash)]
pub struct Desc {
    /// known type?
    pub known: bool,
    pub id: Vec<u8>,
    /// transports: index into TRANSPORTS or unknown string marker (>= 100)
    pub transports: Option<Vec<u8>>,
}

#[derive(Clone, Debug, Serialize, Deserialize, PartialEq, Eq, Hash)]
pub struct PrfVals {
    pub first: Vec<u8>,
    pub second: Option<Vec<u8>>,
}

#[derive(Clone, Debug, Serialize, Deserialize, PartialEq, Eq, Hash)]
pub struct Ext {
    pub cred_props: Option<bool>,
    pub prf_eval: Option<PrfVals>,
    pub prf_by_cred: Option<Option<(Vec<u8>, PrfVals)>>,
    pub hashed_eval: Option<PrfVals>,
}

#[derive(Clone, Debug, Serialize, Deserialize, PartialEq, Eq, Hash)]
pub struct Opts {
    pub create: bool,
    pub rp_id: Option<String>,
    pub rp_name: String,
    pub user_id: Vec<u8>,
    pub user_name: String,
    pub challenge: Vec<u8>,
    /// (known type, alg: known value or an unassigned number)
    pub params: Vec<(bool, i64)>,
    pub timeout: Option<u32>,
    pub creds: Option<Vec<Desc>>,
    /// (attachment, residentKey, requireResidentKey, userVerification): enum codes, >= 100 = unknown string
    pub selection: Option<(Option<u8>, Option<u8>, Option<bool>, Option<u8>)>,
    pub user_verification: Option<u8>,
    pub hints: Option<Vec<u8>>,
    pub attestation: Option<u8>,
    pub attestation_formats: Option<Vec<u8>>,
    pub ext: Option<Ext>,
    /// use the legacy alias "allowList" (request options)
    pub alias: bool,
}

/// how to present the value
#[derive(Clone, Debug, Serialize, Deserialize, PartialEq, Eq, Hash)]
pub struct Pres {
    /// presentation selector per binary member (cycled)
    pub bin: Vec<u8>,
    /// presentation selector per numeric member (cycled)
    pub num: Vec<u8>,
    /// inject unknown members at object levels
    pub unknown_members: bool,
}

const TRANSPORTS: [&str; 6] = ["usb", "nfc", "ble", "hybrid", "internal", "cable"];
const UV: [&str; 3] = ["required", "preferred", "discouraged"];
const ATTACH: [&str; 2] = ["platform", "cross-platform"];
const RK: [&str; 3] = ["discouraged", "preferred", "required"];
const HINTS: [&str; 3] = ["security-key", "client-device", "hybrid"];
const ATT: [&str; 4] = ["none", "indirect", "direct", "enterprise"];
const FORMATS: [&str; 7] = ["packed", "tpm", "android-key", "android-safetynet", "fido-u2f", "apple", "none"];
const KNOWN_ALGS: [i64; 8] = [-7, -257, -8, -35, -36, -37, -65535, -258];
const UNKNOWN_ALGS: [i64; 3] = [-1, 12345678, -99999];

struct Renderer<'a> {
    pres: Option<&'a Pres>,
    bin_i: usize,
    num_i: usize,
    /// number of members whose presentation differs from the canonical one
    differing: usize,
}

impl Renderer<'_> {
    fn bin(&mut self, b: &[u8]) -> Value {
        let Some(p) = self.pres else { return json!(b) };
        let sel = p.bin.get(self.bin_i % p.bin.len().max(1)).copied().unwrap_or(0) % 5;
        self.bin_i += 1;
        if sel != 0 {
            self.differing += 1;
        }
        match sel {
            0 => json!(b),
            1 => json!(b64url(b)),
            2 => json!(b64url_padded(b)),
            3 => json!(b64std(b)),
            _ => json!(b64std_padded(b)),
        }
    }
    fn num(&mut self, n: i64) -> Value {
        let Some(p) = self.pres else { return json!(n) };
        let sel = p.num.get(self.num_i % p.num.len().max(1)).copied().unwrap_or(0) % 6;
        self.num_i += 1;
        if sel != 0 {
            self.differing += 1;
        }
        match sel {
            0 => json!(n),
            1 => json!(n.to_string()),
            2 => serde_json::from_str(&format!("{n}.0")).unwrap(),
            3 => json!(format!("{n}.0")),
            4 => serde_json::from_str(&format!("{n}e0")).unwrap(),
            _ => json!(format!("{n}.000")),
        }
    }
    fn unknown(&mut self, m: &mut Map<String, Value>, tag: &str) {
        if self.pres.is_some_and(|p| p.unknown_members) {
            self.differing += 1;
            m.insert(format!("x-unknown-{tag}"), json!({"nested": [1, "two", null], "k": tag}));
        }
    }
    /// an enumeration member: known value, or (in a presentation) an unknown string; in the
    /// canonical form an unknown scalar is omitted
    fn enum_scalar(&mut self, m: &mut Map<String, Value>, key: &str, code: Option<u8>, names: &[&str]) {
        match code {
            None => {}
            Some(c) if (c as usize) < names.len() => {
                m.insert(key.into(), json!(names[c as usize]));
            }
            Some(c) => {
                if self.pres.is_some() {
                    self.differing += 1;
                    m.insert(key.into(), json!(format!("future-value-{c}")));
                }
            }
        }
    }
    /// list of enumeration strings: unknown entries are dropped in the canonical form
    fn enum_list(&mut self, codes: &[u8], names: &[&str]) -> Value {
        let mut out = vec![];
        for c in codes {
            if (*c as usize) < names.len() {
                out.push(json!(names[*c as usize]));
            } else if self.pres.is_some() {
                self.differing += 1;
                out.push(json!(format!("future-value-{c}")));
            }
        }
        Value::Array(out)
    }
    fn prf_vals(&mut self, v: &PrfVals) -> Value {
        let mut m = Map::new();
        m.insert("first".into(), self.bin(&v.first));
        if let Some(s) = &v.second {
            m.insert("second".into(), self.bin(s));
        }
        self.unknown(&mut m, "prfvals");
        Value::Object(m)
    }
    fn prf_inputs(&mut self, eval: Option<&PrfVals>, by: Option<&Option<(Vec<u8>, PrfVals)>>) -> Value {
        let mut m = Map::new();
        if let Some(e) = eval {
            m.insert("eval".into(), self.prf_vals(e));
        }
        if let Some(by) = by {
            let mut bm = Map::new();
            if let Some((k, v)) = by {
                bm.insert(b64url(k), self.prf_vals(v));
            }
            m.insert("evalByCredential".into(), Value::Object(bm));
        }
        Value::Object(m)
    }
    fn descriptor(&mut self, d: &Desc) -> Value {
        let mut m = Map::new();
        if d.known {
            m.insert("type".into(), json!("public-key"));
        } else if self.pres.is_some() {
            self.differing += 1;
            m.insert("type".into(), json!("future-credential-type"));
        } else {
            m.insert("type".into(), json!("unknown"));
        }
        m.insert("id".into(), self.bin(&d.id));
        if let Some(t) = &d.transports {
            m.insert("transports".into(), self.enum_list(t, &TRANSPORTS));
        }
        self.unknown(&mut m, "descriptor");
        Value::Object(m)
    }

    fn render(&mut self, o: &Opts) -> Value {
        let mut pk = Map::new();
        if o.create {
            let mut rp = Map::new();
            if let Some(id) = &o.rp_id {
                rp.insert("id".into(), json!(id));
            }
            rp.insert("name".into(), json!(o.rp_name));
            self.unknown(&mut rp, "rp");
            pk.insert("rp".into(), Value::Object(rp));
            let mut user = Map::new();
            user.insert("id".into(), self.bin(&o.user_id));
            user.insert("name".into(), json!(o.user_name));
            user.insert("displayName".into(), json!(o.user_name));
            self.unknown(&mut user, "user");
            pk.insert("user".into(), Value::Object(user));
        }
        pk.insert("challenge".into(), self.bin(&o.challenge));
        if o.create {
            let mut params = vec![];
            for (known_ty, alg) in &o.params {
                let alg_known = KNOWN_ALGS.contains(alg);
                if !alg_known && self.pres.is_none() {
                    // entries with an unknown algorithm are dropped
                    continue;
                }
                if !alg_known {
                    self.differing += 1;
                }
                let mut m = Map::new();
                if *known_ty {
                    m.insert("type".into(), json!("public-key"));
                } else if self.pres.is_some() {
                    self.differing += 1;
                    m.insert("type".into(), json!("future-credential-type"));
                } else {
                    m.insert("type".into(), json!("unknown"));
                }
                m.insert("alg".into(), self.num(*alg));
                self.unknown(&mut m, "param");
                params.push(Value::Object(m));
            }
            pk.insert("pubKeyCredParams".into(), Value::Array(params));
        } else if let Some(id) = &o.rp_id {
            pk.insert("rpId".into(), json!(id));
        }
        if let Some(t) = o.timeout {
            pk.insert("timeout".into(), self.num(t as i64));
        }
        if let Some(c) = &o.creds {
            let list: Vec<Value> = c.iter().map(|d| self.descriptor(d)).collect();
            let key = if o.create {
                "excludeCredentials"
            } else if o.alias && self.pres.is_some() {
                self.differing += 1;
                "allowList"
            } else {
                "allowCredentials"
            };
            pk.insert(key.into(), Value::Array(list));
        }
        if o.create {
            if let Some((att, rk, rrk, uv)) = &o.selection {
                let mut m = Map::new();
                self.enum_scalar(&mut m, "authenticatorAttachment", *att, &ATTACH);
                self.enum_scalar(&mut m, "residentKey", *rk, &RK);
                if let Some(r) = rrk {
                    m.insert("requireResidentKey".into(), json!(r));
                }
                self.enum_scalar(&mut m, "userVerification", *uv, &UV);
                self.unknown(&mut m, "selection");
                pk.insert("authenticatorSelection".into(), Value::Object(m));
            }
        } else {
            self.enum_scalar(&mut pk, "userVerification", o.user_verification, &UV);
        }
        if let Some(h) = &o.hints {
            pk.insert("hints".into(), self.enum_list(h, &HINTS));
        }
        self.enum_scalar(&mut pk, "attestation", o.attestation, &ATT);
        if let Some(f) = &o.attestation_formats {
            pk.insert("attestationFormats".into(), self.enum_list(f, &FORMATS));
        }
        if let Some(e) = &o.ext {
            let mut m = Map::new();
            if let Some(c) = e.cred_props {
                m.insert("credProps".into(), json!(c));
            }
            if e.prf_eval.is_some() || e.prf_by_cred.is_some() {
                m.insert("prf".into(), self.prf_inputs(e.prf_eval.as_ref(), e.prf_by_cred.as_ref()));
            }
            if let Some(h) = &e.hashed_eval {
                m.insert("prfAlreadyHashed".into(), self.prf_inputs(Some(h), None));
            }
            self.unknown(&mut m, "extensions");
            pk.insert("extensions".into(), Value::Object(m));
        }
        self.unknown(&mut pk, "publickey");
        let mut top = Map::new();
        top.insert("publicKey".into(), Value::Object(pk));
        self.unknown(&mut top, "top");
        Value::Object(top)
    }
}

/// parse a document through each entry point of serde_json (they hand strings and numbers to the library's visitors in
/// different ways: borrowed from a str, copied from a reader, owned from an in-memory `Value`); all must agree
fn parse_dbg(create: bool, text: &str) -> Result<String, String> {
    fn all<T: serde::de::DeserializeOwned + std::fmt::Debug>(text: &str) -> Result<String, String> {
        let a = serde_json::from_str::<T>(text).map(|v| format!("{v:?}")).map_err(|e| e.to_string());
        let b = serde_json::from_reader::<_, T>(std::io::Cursor::new(text.as_bytes())).map(|v| format!("{v:?}")).map_err(|e| e.to_string());
        let c = serde_json::from_str::<Value>(text).map_err(|e| e.to_string()).and_then(|v| serde_json::from_value::<T>(v).map(|v| format!("{v:?}")).map_err(|e| e.to_string()));
        for (name, other) in [("from_reader", &b), ("from_value", &c)] {
            match (&a, other) {
                (Ok(x), Ok(y)) if x == y => {}
                (Err(_), Err(_)) => {}
                _ => return Err(format!("serde_json::from_str and serde_json::{name} disagree on the same document: {} vs {}", trunc_res(&a), trunc_res(other))),
            }
        }
        a
    }
    fn trunc_res(r: &Result<String, String>) -> String {
        match r {
            Ok(s) => format!("Ok({})", s.chars().take(160).collect::<String>()),
            Err(e) => format!("Err({e})"),
        }
    }
    let r = catch_unwind(AssertUnwindSafe(|| if create { all::<CredentialCreationOptions>(text) } else { all::<CredentialRequestOptions>(text) })).map_err(|_| format!("parse panicked: {}", crate::last_panic()))?;
    r
}

pub fn check_opts(ctx: &mut Ctx, case: &(Opts, Vec<Pres>)) -> Result<(), String> {
    let (o, presentations) = case;
    let canonical = Renderer { pres: None, bin_i: 0, num_i: 0, differing: 0 }.render(o);
    let canon_text = serde_json::to_string(&canonical).unwrap();
    let want = parse_dbg(o.create, &canon_text).map_err(|e| format!("the canonical presentation does not parse: {e}; {canon_text}"))?;
    ctx.eval();
    for p in presentations {
        let mut r = Renderer { pres: Some(p), bin_i: 0, num_i: 0, differing: 0 };
        let v = r.render(o);
        let text = serde_json::to_string(&v).unwrap();
        ctx.eval();
        let got = parse_dbg(o.create, &text).map_err(|e| format!("a presentation of the same options fails to parse: {e}\n  presentation: {}\n  canonical:    {}", trunc(&text), trunc(&canon_text)))?;
        if got != want {
            return Err(format!("two presentations of the same options parse to different values\n  presentation: {}\n  canonical:    {}\n  parsed:   {}\n  expected: {}", trunc(&text), trunc(&canon_text), trunc(&got), trunc(&want)));
        }
        if r.differing >= 2 {
            ctx.nontrivial(&(o, p));
        }
        ctx.class(if o.create { "creation-options" } else { "request-options" });
        ctx.sample(if o.create { "creation" } else { "request" }, || json!({"presentation": trunc(&text), "canonical": trunc(&canon_text)}));
    }
    Ok(())
}

fn trunc(s: &str) -> String {
    if s.len() > 900 {
        let mut e = 900;
        while !s.is_char_boundary(e) {
            e -= 1;
        }
        format!("{}…", &s[..e])
    } else {
        s.to_string()
    }
}

// ------------------------------------------------------------------ byte strings

pub fn check_bytes(ctx: &mut Ctx, b: &Vec<u8>) -> Result<(), String> {
    ctx.eval();
    let enc = encoding::base64url(b);
    if enc != b64url(b) {
        return Err(format!("base64url({}) = {enc:?}, expected unpadded base64url {:?}", crate::core::hex(b), b64url(b)));
    }
    match encoding::try_from_base64url(&enc) {
        Some(d) if d == *b => {}
        other => return Err(format!("base64url encoding followed by decoding is not the identity on {}: {other:?}", crate::core::hex(b))),
    }
    let s: String = Bytes::from(b.clone()).into();
    // the conversion of a byte string into its text is a base64url encoder too: the strict decoder inverts it
    match encoding::try_from_base64url(&s) {
        Some(d) if d == *b => {}
        other => return Err(format!("String::from(Bytes) followed by base64url decoding is not the identity on {}: text {s:?} decodes to {other:?}", crate::core::hex(b))),
    }
    match Bytes::try_from(s.as_str()) {
        Ok(d) if d.as_slice() == b.as_slice() => {}
        other => return Err(format!("Bytes -> String -> Bytes is not the identity on {}: {other:?}", crate::core::hex(b))),
    }
    // every textual presentation decodes to the same bytes
    for (name, text) in [("base64url padded", b64url_padded(b)), ("base64", b64std(b)), ("base64 padded", b64std_padded(b))] {
        match Bytes::try_from(text.as_str()) {
            Ok(d) if d.as_slice() == b.as_slice() => {}
            other => return Err(format!("{name} presentation {text:?} of {} decodes to {other:?}", crate::core::hex(b))),
        }
    }
    // and so through every serde_json entry point (borrowed, copied and owned strings reach different visitor methods)
    for (name, text) in [("base64url", b64url(b)), ("base64url padded", b64url_padded(b)), ("base64", b64std(b)), ("base64 padded", b64std_padded(b))] {
        let doc = serde_json::to_string(&text).unwrap();
        let via: [(&str, Result<Bytes, String>); 3] = [
            ("from_str", serde_json::from_str::<Bytes>(&doc).map_err(|e| e.to_string())),
            ("from_reader", serde_json::from_reader::<_, Bytes>(std::io::Cursor::new(doc.as_bytes())).map_err(|e| e.to_string())),
            ("from_value", serde_json::from_value::<Bytes>(Value::String(text.clone())).map_err(|e| e.to_string())),
        ];
        for (entry, r) in via {
            match r {
                Ok(d) if d.as_slice() == b.as_slice() => {}
                other => return Err(format!("{name} presentation {text:?} of {} read with serde_json::{entry} gives {other:?}", crate::core::hex(b))),
            }
        }
    }
    if !b.is_empty() {
        ctx.nontrivial(b);
    }
    ctx.class("bytes");
    Ok(())
}

// ------------------------------------------------------------------ client data order

pub fn check_client_data(ctx: &mut Ctx, case: &(Value, Vec<(String, Value)>, u8, Option<bool>)) -> Result<(), String> {
    let (extra, unknown, ty, cross) = case;
    ctx.eval();
    let ty = match ty % 3 {
        0 => ClientDataType::Create,
        1 => ClientDataType::Get,
        _ => ClientDataType::PaymentGet,
    };
    let extra_keys: Vec<String> = extra.as_object().map(|m| m.keys().cloned().collect()).unwrap_or_default();
    let mut unknown_keys = indexmap_from(unknown, &extra_keys);
    let cd = CollectedClientData::<Value> { ty, challenge: "Y2hhbGxlbmdl".into(), origin: "https://example.com".into(), cross_origin: *cross, extra_data: extra.clone(), unknown_keys: std::mem::take(&mut unknown_keys) };
    let text = catch_unwind(AssertUnwindSafe(|| serde_json::to_string(&cd))).map_err(|_| format!("serialisation panicked: {}", crate::last_panic()))?.map_err(|e| format!("client data does not serialise: {e}"))?;
    let v: Value = serde_json::from_str(&text).map_err(|e| format!("client data JSON does not parse: {e}"))?;
    let keys: Vec<&String> = v.as_object().ok_or("not an object")?.keys().collect();
    let mut want: Vec<String> = vec!["type".into(), "challenge".into(), "origin".into(), "crossOrigin".into()];
    want.extend(extra_keys.iter().cloned());
    want.extend(cd.unknown_keys.keys().cloned());
    let got: Vec<String> = keys.iter().map(|k| k.to_string()).collect();
    if got != want {
        return Err(format!("client data members are serialised in the order {got:?}, expected {want:?}"));
    }
    // values survive
    for (k, val) in extra.as_object().into_iter().flatten() {
        if v.get(k) != Some(val) {
            return Err(format!("extra member {k:?} changed in the serialisation"));
        }
        if serde_json::to_string(v.get(k).unwrap()).unwrap() != serde_json::to_string(val).unwrap() {
            return Err(format!("nested key order of extra member {k:?} changed"));
        }
    }
    // parse -> serialise keeps the order of unknown members
    let parsed: CollectedClientData = serde_json::from_str(&text).map_err(|e| format!("client data does not re-parse: {e}"))?;
    let again = serde_json::to_string(&parsed).map_err(|e| e.to_string())?;
    if again != text {
        return Err(format!("parsing and re-serialising client data changes it:\n  {}\n  {}", trunc(&text), trunc(&again)));
    }
    if !extra_keys.is_empty() || !cd.unknown_keys.is_empty() {
        ctx.nontrivial(&text);
    }
    ctx.class("client-data");
    ctx.sample("client-data", || json!(trunc(&text)));
    Ok(())
}

fn indexmap_from(unknown: &[(String, Value)], taken: &[String]) -> indexmap::IndexMap<String, Value> {
    let mut m = indexmap::IndexMap::new();
    for (k, v) in unknown {
        if !["type", "challenge", "origin", "crossOrigin"].contains(&k.as_str()) && !taken.contains(k) {
            m.insert(k.clone(), v.clone());
        }
    }
    m
}

// ------------------------------------------------------------------ emitted credentials

pub fn check_emitted(ctx: &mut Ctx, case: &(u8, Vec<u8>, Value, bool, u8)) -> Result<(), String> {
    let (site_i, challenge, extra, with_prf, hmac) = case;
    let site = &SITES[*site_i as usize % SITES.len()];
    let store = RefStore::new(Disc::Full);
    let cfg = AuthCfg { hmac: HmacCfg::ALL[*hmac as usize % 5], counter: true, ..Default::default() };
    let auth = cer::build_authenticator(store, ScriptedUv::new(UvScript::verified()), &cfg);
    // the transports the authenticator reports end up in the emitted credential: none, one, the default two
    use passkey_types::webauthn::AuthenticatorTransport as T;
    let auth = match challenge.len() % 4 {
        0 => auth.transports(vec![]),
        1 => auth.transports(vec![T::Usb]),
        2 => auth.transports(vec![T::Internal, T::Hybrid, T::Ble, T::Nfc]),
        _ => auth,
    };
    let mut client = Client::new_with_custom_tld_provider(auth, HProvider::new(ProviderKind::Default)).allows_insecure_localhost(true);
    let ext = with_prf.then(|| passkey_types::webauthn::AuthenticationExtensionsClientInputs {
        cred_props: Some(true),
        prf: Some(passkey_types::webauthn::AuthenticationExtensionsPrfInputs { eval: Some(passkey_types::webauthn::AuthenticationExtensionsPrfValues { first: challenge.clone().into(), second: Some(vec![1, 2, 3].into()) }), eval_by_credential: None }),
        prf_already_hashed: None,
    });
    ctx.eval();
    let created: CreatedPublicKeyCredential = block_on(client.register(site.origin(), cer::creation_options(site.rp, challenge, b"c14-user", "u", &[-7], None, None, ext), DefaultClientDataWithExtra(extra.clone()))).map_err(|e| format!("registration failed: {e:?}"))?;
    let text = serde_json::to_string(&created).map_err(|e| format!("emitted credential does not serialise: {e}"))?;
    let back: CreatedPublicKeyCredential = serde_json::from_str(&text).map_err(|e| format!("the JSON of an emitted registration credential does not parse back: {e}; {}", trunc(&text)))?;
    if format!("{back:?}") != format!("{created:?}") {
        return Err(format!("an emitted registration credential does not survive JSON: {}", trunc(&text)));
    }
    let ext = with_prf.then(|| passkey_types::webauthn::AuthenticationExtensionsClientInputs {
        cred_props: None,
        prf: Some(passkey_types::webauthn::AuthenticationExtensionsPrfInputs { eval: Some(passkey_types::webauthn::AuthenticationExtensionsPrfValues { first: challenge.clone().into(), second: None }), eval_by_credential: None }),
        prf_already_hashed: None,
    });
    let asserted: AuthenticatedPublicKeyCredential = block_on(client.authenticate(site.origin(), cer::request_options(site.rp, challenge, None, cer::uv_req(0), ext), DefaultClientData)).map_err(|e| format!("authentication failed: {e:?}"))?;
    let text2 = serde_json::to_string(&asserted).map_err(|e| format!("emitted credential does not serialise: {e}"))?;
    let back: AuthenticatedPublicKeyCredential = serde_json::from_str(&text2).map_err(|e| format!("the JSON of an emitted assertion credential does not parse back: {e}; {}", trunc(&text2)))?;
    if format!("{back:?}") != format!("{asserted:?}") {
        return Err(format!("an emitted assertion credential does not survive JSON: {}", trunc(&text2)));
    }
    // the client data the client produced keeps the order, too
    let cd: Value = serde_json::from_slice(&created.response.client_data_json).map_err(|e| e.to_string())?;
    let keys: Vec<String> = cd.as_object().ok_or("client data not an object")?.keys().cloned().collect();
    let mut want: Vec<String> = vec!["type".into(), "challenge".into(), "origin".into(), "crossOrigin".into()];
    want.extend(extra.as_object().into_iter().flatten().map(|(k, _)| k.clone()));
    if keys != want {
        return Err(format!("clientDataJSON produced by the client has members in the order {keys:?}, expected {want:?}"));
    }
    ctx.nontrivial(&(text.len(), text2.len(), site_i, challenge));
    ctx.class("emitted-credentials");
    ctx.sample("emitted", || json!({"created": trunc(&text), "asserted": trunc(&text2)}));
    Ok(())
}

// ------------------------------------------------------------------ strategies

fn bytes_s() -> impl Strategy<Value = Vec<u8>> {
    prop_oneof![1 => Just(vec![]), 1 => Just(vec![0xfb, 0xff, 0xfe, 0xfa]), 24 => proptest::collection::vec(any::<u8>(), 0..48),
        // now and then around buffer-size boundaries (lists of thousands of numbers in the array presentation)
        1 => (prop_oneof![Just(4095usize), Just(4096), Just(4097), Just(5000), Just(8193), Just(65537)], any::<u8>()).prop_map(|(n, f)| (0..n).map(|i| f.wrapping_add((i % 251) as u8)).collect()), 4 => proptest::collection::vec(prop_oneof![Just(0xffu8), Just(0xfe), Just(0xfb), Just(0x3e), Just(0x3f)], 1..20)]
}

fn code(n: u8) -> impl Strategy<Value = u8> {
    prop_oneof![5 => 0..n, 1 => 100u8..103]
}

fn prf_vals() -> impl Strategy<Value = PrfVals> {
    (bytes_s(), proptest::option::of(bytes_s())).prop_map(|(first, second)| PrfVals { first, second })
}

fn opts() -> impl Strategy<Value = Opts> {
    let desc = (proptest::bool::weighted(0.85), bytes_s(), proptest::option::of(proptest::collection::vec(code(6), 0..4))).prop_map(|(known, id, transports)| Desc { known, id, transports });
    let param = (proptest::bool::weighted(0.85), prop_oneof![6 => proptest::sample::select(KNOWN_ALGS.to_vec()), 1 => proptest::sample::select(UNKNOWN_ALGS.to_vec())]);
    let ext = (proptest::option::of(any::<bool>()), proptest::option::of(prf_vals()), proptest::option::of(proptest::option::of((proptest::collection::vec(any::<u8>(), 1..24), prf_vals()))), proptest::option::of(prf_vals())).prop_map(|(cred_props, prf_eval, prf_by_cred, hashed_eval)| Ext { cred_props, prf_eval, prf_by_cred, hashed_eval });
    (
        (any::<bool>(), proptest::option::of("[a-z0-9.-]{1,16}"), "\\PC{0,10}", bytes_s(), "\\PC{0,10}", bytes_s()),
        (proptest::collection::vec(param, 0..6), proptest::option::of(prop_oneof![Just(0u32), Just(60000), Just(300000), Just(1800), Just(u32::MAX), any::<u32>()]), proptest::option::of(proptest::collection::vec(desc, 0..4))),
        (proptest::option::of((proptest::option::of(code(2)), proptest::option::of(code(3)), proptest::option::of(any::<bool>()), proptest::option::of(code(3)))), proptest::option::of(code(3)), proptest::option::of(proptest::collection::vec(code(3), 0..4)), proptest::option::of(code(4)), proptest::option::of(proptest::collection::vec(code(7), 0..4)), proptest::option::of(ext), any::<bool>()),
    )
        .prop_map(|((create, rp_id, rp_name, user_id, user_name, challenge), (params, timeout, creds), (selection, user_verification, hints, attestation, attestation_formats, ext, alias))| Opts {
            create,
            rp_id,
            rp_name,
            user_id,
            user_name,
            challenge,
            params,
            timeout,
            creds,
            selection,
            user_verification,
            hints,
            attestation,
            attestation_formats,
            ext,
            alias,
        })
}

fn pres() -> impl Strategy<Value = Pres> {
    (proptest::collection::vec(any::<u8>(), 1..8), proptest::collection::vec(any::<u8>(), 1..6), any::<bool>()).prop_map(|(bin, num, unknown_members)| Pres { bin, num, unknown_members })
}

pub fn run(ctx: &mut Ctx) {
    ctx.rule = "option value trees (creation and request options, every optional member present/absent, descriptors, selection criteria, hints, attestation members, extensions with PRF inputs) rendered under generated presentations (each parsed through serde_json::from_str, from_reader and from_value, which must agree): each binary member as number array / base64url / base64url padded / base64 / base64 padded; timeouts and algorithm ids as number, numeric string, integral float, stringified float, exponent form; unknown members injected at every object level; unknown enumeration strings in scalars and lists; the allowList alias. Plus byte strings (encode/decode identity, every textual presentation), client data with generated extras (nested JSON, any key order) and unknown members, and credentials emitted by real ceremonies. Since round 7 String::from(Bytes) is inverted by the strict base64url decoder. Non-trivial = presentation differing from the canonical one in at least two members, a non-empty byte string, client data with extra/unknown members, an emitted credential pair; distinct by case.".into();
    ctx.assumptions = vec![
        "parsed values are compared through their Debug rendering (the types have no PartialEq); per-credential PRF inputs carry at most one entry so that map order cannot differ".into(),
        "canonical form: unknown scalar enumeration strings are omitted (the member takes its default), unknown list entries and parameters with unassigned algorithm numbers are dropped, unknown credential types read as 'unknown'".into(),
        "extra client-data keys never equal the four reserved names".into(),
    ];
    let n = ctx.tier.pick(2_500u32, 1_000_000u32);
    match search(ctx, 141, n, (opts(), proptest::collection::vec(pres(), 4)), check_opts) {
        Search::Pass => {}
        Search::Fail(c, e) => ctx.violation("options", json!(c), &e),
    }
    let n = ctx.tier.pick(20_000u32, 12_000_000u32);
    match search(ctx, 142, n, prop_oneof![4 => proptest::collection::vec(any::<u8>(), 0..80), 1 => bytes_s()], check_bytes) {
        Search::Pass => {}
        Search::Fail(c, e) => ctx.violation("bytes", json!(c), &e),
    }
    let n = ctx.tier.pick(3_000u32, 1_000_000u32);
    let cd = (json_extra(), proptest::collection::vec(("[a-zA-Z_][a-zA-Z0-9_]{0,9}", json_extra()), 0..4), any::<u8>(), proptest::option::of(any::<bool>()));
    match search(ctx, 143, n, cd, check_client_data) {
        Search::Pass => {}
        Search::Fail(c, e) => ctx.violation("client-data", json!(c), &e),
    }
    let n = ctx.tier.pick(300u32, 100_000u32);
    // mostly small; now and then a challenge or extra client data of several KiB (clientDataJSON grows with both)
    let big_extra = (3000usize..7000).prop_map(|n| json!({"padding": "p".repeat(n)}));
    let em = (any::<u8>(), prop_oneof![12 => proptest::collection::vec(any::<u8>(), 0..64), 1 => bytes_s()], prop_oneof![10 => json_extra(), 1 => big_extra], any::<bool>(), any::<u8>());
    match search(ctx, 144, n, em, check_emitted) {
        Search::Pass => {}
        Search::Fail(c, e) => ctx.violation("emitted", json!(c), &e),
    }
}

pub fn replay(ctx: &mut Ctx, stage: &str, case: &Value) -> Result<(), String> {
    match stage {
        "options" => check_opts(ctx, &serde_json::from_value(case.clone()).map_err(|e| format!("bad case: {e}"))?),
        "bytes" => check_bytes(ctx, &serde_json::from_value(case.clone()).map_err(|e| format!("bad case: {e}"))?),
        "client-data" => check_client_data(ctx, &serde_json::from_value(case.clone()).map_err(|e| format!("bad case: {e}"))?),
        "emitted" => check_emitted(ctx, &serde_json::from_value(case.clone()).map_err(|e| format!("bad case: {e}"))?),
        other => Err(format!("unknown stage {other}")),
    }
}

/// valid option JSON documents under a generated presentation, for the hostile-input engine (C15)
pub fn rendered() -> impl Strategy<Value = (bool, String)> {
    (opts(), pres()).prop_map(|(o, p)| {
        let v = Renderer { pres: Some(&p), bin_i: 0, num_i: 0, differing: 0 }.render(&o);
        (o.create, serde_json::to_string(&v).unwrap())
    })
}
