//! C04 — no credential is created or used without user consent; flags are truthful.
//! Complete enumeration of the finite configuration product on fresh authenticators.

use passkey_client::{Client, DefaultClientData};
use passkey_types::ctap2::{get_assertion, make_credential};
use passkey_types::Passkey;
use serde::{Deserialize, Serialize};
use serde_json::{json, Value};

use crate::cer::{self, AuthCfg};
use crate::ceremony::SITES;
use crate::core::Ctx;
use crate::model::authdata::{self, UP, UV};
use crate::model::rpid::{HProvider, ProviderKind};
use crate::model::util::{make_passkey, snap, PkSnap};
use crate::rt::{block_on, Disc, RefStore, ScriptedUv, UvScript};

#[derive(Clone, Debug, Serialize, Deserialize, PartialEq, Eq, Hash)]
pub struct Cfg {
    pub create: bool,
    pub rk: bool,
    pub up: bool,
    pub uv: bool,
    pub script: UvScript,
    pub pin_auth: bool,
    /// assert: matching credentials present; create: the exclude list names a held credential
    pub matching: bool,
    /// create only: exclude list 0 absent / 1 present
    pub exclude_list: bool,
    /// Some(requirement index) = go through Client instead of the authenticator API
    pub client_uv_req: Option<u8>,
    /// how the CTAP request reaches the authenticator: 0 = built as a value; 2 = through its CBOR encoding with
    /// every option that has its CTAP default (up=true, rk=false, uv=false) left out of the options map;
    /// 3 = like 2 and an options map that became empty is left out altogether
    #[serde(default)]
    pub wire: u8,
    /// assertions only: while the user is being asked, another party puts a further credential of the RP in front of
    /// all others in the store (the one shown for consent must still be the one that signs)
    #[serde(default)]
    pub store_changes_during_prompt: bool,
    /// authenticator-API configurations only: before the judged ceremony the same authenticator serves a verified
    /// assertion for another RP while its user verification is still configured (whatever it learnt then must not
    /// outlive a change of the capability)
    #[serde(default)]
    pub warmed_up: bool,
    /// authenticator-API configurations: the request goes through the sealed `Ctap2Api` trait instead of the direct method
    #[serde(default)]
    pub via_trait: bool,
    /// client assertions: the request carries an allow list of ten descriptors (one of them names a held credential
    /// when matching credentials are present)
    #[serde(default)]
    pub long_allow_list: bool,
    /// authenticator-API configurations: the authenticator supports hmac-secret (1 with non-gated secret and evaluation at
    /// creation, 2 gated only with evaluation at creation, 3 with non-gated secret) and the request carries a PRF input;
    /// held credentials then hold both secrets. Extension processing comes after consent and must not touch the flags.
    #[serde(default)]
    pub hmac: u8,
}

fn late_credential() -> Passkey {
    make_passkey(34, RP, b"matching-cred-0000-late", Some(b"uh-late"), Some(2), None)
}

/// re-read a request from its CBOR encoding after dropping the option entries that carry their default value
fn through_wire<T: Serialize + serde::de::DeserializeOwned>(req: T, options_key: i64, wire: u8) -> Result<T, String> {
    use ciborium::value::Value as V;
    if wire == 0 {
        return Ok(req);
    }
    let mut v = V::serialized(&req).map_err(|e| format!("request does not serialise: {e}"))?;
    if let V::Map(m) = &mut v {
        let mut drop_key = false;
        for (k, val) in m.iter_mut() {
            if k.as_integer().map(i128::from) == Some(options_key as i128) {
                if let V::Map(o) = val {
                    o.retain(|(name, b)| !matches!((name.as_text(), b.as_bool()), (Some("up"), Some(true)) | (Some("rk"), Some(false)) | (Some("uv"), Some(false))));
                    drop_key = o.is_empty() && wire == 3;
                }
            }
        }
        if drop_key {
            m.retain(|(k, _)| k.as_integer().map(i128::from) != Some(options_key as i128));
        }
    }
    let mut bytes = vec![];
    ciborium::ser::into_writer(&v, &mut bytes).map_err(|e| format!("{e}"))?;
    ciborium::de::from_reader(bytes.as_slice()).map_err(|e| format!("the request's CBOR encoding with default options left out does not decode: {e}"))
}

const RP: &str = "example.com";

fn contents(matching: bool) -> Vec<Passkey> {
    contents_with(matching, false)
}

fn contents_with(matching: bool, secrets: bool) -> Vec<Passkey> {
    let hm = |k: u8| secrets.then(|| (vec![k; 32], Some(vec![k ^ 0xFF; 32])));
    let mut v = vec![make_passkey(31, "other.example.org", b"other-rp-cred-0001", Some(b"uh-x"), Some(7), hm(1))];
    if matching {
        v.push(make_passkey(32, RP, b"matching-cred-0001", Some(b"uh-1"), Some(5), hm(2)));
        v.push(make_passkey(33, RP, b"matching-cred-0002", Some(b"uh-2"), Some(9), hm(3)));
    }
    v
}

#[derive(Debug, Clone, PartialEq)]
pub struct Outcome {
    /// Ok((flags, credential id used/created)) or Err(status byte / error text)
    pub result: Result<(u8, Vec<u8>), String>,
    /// the store right before the judged ceremony (after the warm-up, if any)
    pub store_before: Vec<PkSnap>,
    pub store_after: Vec<PkSnap>,
    pub uv_calls: Vec<crate::rt::UvCall>,
}

pub fn execute(c: &Cfg, matching: bool) -> Result<Outcome, String> {
    let store = RefStore::with(Disc::Full, contents_with(matching, c.hmac != 0));
    let uv = ScriptedUv::new(c.script.clone());
    if c.store_changes_during_prompt {
        let s2 = store.clone();
        uv.on_next_check(move || s2.prepend(late_credential()));
    }
    let hmac_cfg = [cer::HmacCfg::None, cer::HmacCfg::WithoutUvMc, cer::HmacCfg::UvOnlyMc, cer::HmacCfg::WithoutUv][c.hmac as usize % 4];
    let auth = cer::build_authenticator(store.clone(), uv.clone(), &AuthCfg { counter: true, hmac: hmac_cfg, ..Default::default() });
    let prf_in = || passkey_types::ctap2::extensions::AuthenticatorPrfInputs { eval: Some(passkey_types::ctap2::extensions::AuthenticatorPrfValues { first: [0x42; 32], second: None }), eval_by_credential: None };
    #[allow(unused_assignments)]
    let mut store_before: Vec<PkSnap> = store.creds().iter().map(snap).collect();
    let exclude = c.exclude_list.then(|| vec![cer::descriptor(b"matching-cred-0001"), cer::descriptor(b"never-seen")]);
    let pin = c.pin_auth.then(|| vec![1u8; 16].into());
    let result: Result<(u8, Vec<u8>), String> = if let Some(req) = c.client_uv_req {
        let mut client = Client::new_with_custom_tld_provider(auth, HProvider::new(ProviderKind::Default));
        let site = &SITES[0];
        if c.create {
            let sel = Some(cer::selection(None, c.rk, cer::uv_req(req)));
            let r = std::panic::catch_unwind(std::panic::AssertUnwindSafe(|| block_on(client.register(site.origin(), cer::creation_options(site.rp, b"chal", b"user", "u", &[-7], exclude, sel, None), DefaultClientData))))
                .map_err(|_| format!("register panicked: {}", crate::last_panic()))?;
            match r {
                Ok(cred) => {
                    let ad = authdata::decode(&cred.response.authenticator_data)?;
                    Ok((ad.flags, cred.raw_id.to_vec()))
                }
                Err(e) => Err(format!("{e:?}")),
            }
        } else {
            let r = std::panic::catch_unwind(std::panic::AssertUnwindSafe(|| block_on(client.authenticate(site.origin(), cer::request_options(site.rp, b"chal", c.long_allow_list.then(|| (0..10u8).map(|k| if k == 5 { cer::descriptor(b"matching-cred-0001") } else { cer::descriptor(format!("c04-unknown-credential-{k}").as_bytes()) }).collect()), cer::uv_req(req), None), DefaultClientData))))
                .map_err(|_| format!("authenticate panicked: {}", crate::last_panic()))?;
            match r {
                Ok(a) => {
                    let ad = authdata::decode(&a.response.authenticator_data)?;
                    Ok((ad.flags, a.raw_id.to_vec()))
                }
                Err(e) => Err(format!("{e:?}")),
            }
        }
    } else {
        let mut auth = auth;
        if c.warmed_up {
            // a verified assertion for the other RP while verification is configured, then the capability becomes
            // what the configuration says
            uv.set(UvScript::verified());
            let warm = get_assertion::Request { rp_id: "other.example.org".into(), client_data_hash: vec![9u8; 32].into(), allow_list: None, extensions: None, options: get_assertion::Options { rk: false, up: true, uv: true }, pin_auth: None, pin_protocol: None };
            let _ = block_on(auth.get_assertion(warm));
            uv.set(c.script.clone());
            uv.log.lock().unwrap().clear();
            store_before = store.creds().iter().map(snap).collect();
        }
        if c.create {
            let req = make_credential::Request {
                client_data_hash: vec![1u8; 32].into(),
                rp: make_credential::PublicKeyCredentialRpEntity { id: RP.into(), name: None },
                user: passkey_types::webauthn::PublicKeyCredentialUserEntity { id: b"user".to_vec().into(), display_name: "d".into(), name: "n".into() },
                pub_key_cred_params: cer::params(&[-7]),
                exclude_list: exclude,
                extensions: (c.hmac != 0).then(|| make_credential::ExtensionInputs { hmac_secret: None, hmac_secret_mc: None, prf: Some(prf_in()) }),
                options: make_credential::Options { rk: c.rk, up: c.up, uv: c.uv },
                pin_auth: pin,
                pin_protocol: c.pin_auth.then_some(1),
            };
            let req = match through_wire(req, 0x07, c.wire) {
                Ok(r) => r,
                // whether such an encoding decodes at all is C13's business; nothing to judge about consent then
                Err(e) => return Ok(Outcome { result: Err(format!("not-decodable: {e}")), store_before: store_before.clone(), store_after: store.creds().iter().map(snap).collect(), uv_calls: vec![] }),
            };
            let r = std::panic::catch_unwind(std::panic::AssertUnwindSafe(|| if c.via_trait { block_on(passkey_authenticator::Ctap2Api::make_credential(&mut auth, req)) } else { block_on(auth.make_credential(req)) })).map_err(|_| format!("make_credential panicked: {}", crate::last_panic()))?;
            match r {
                Ok(resp) => {
                    let bytes = resp.auth_data.to_vec();
                    let ad = authdata::decode(&bytes)?;
                    Ok((ad.flags, ad.att.map(|a| a.cred_id).unwrap_or_default()))
                }
                Err(e) => Err(format!("0x{:02X}", u8::from(e))),
            }
        } else {
            let req = get_assertion::Request {
                rp_id: RP.into(),
                client_data_hash: vec![1u8; 32].into(),
                allow_list: None,
                extensions: (c.hmac != 0).then(|| get_assertion::ExtensionInputs { hmac_secret: None, prf: Some(prf_in()) }),
                options: get_assertion::Options { rk: c.rk, up: c.up, uv: c.uv },
                pin_auth: pin,
                pin_protocol: c.pin_auth.then_some(1),
            };
            let req = match through_wire(req, 0x05, c.wire) {
                Ok(r) => r,
                Err(e) => return Ok(Outcome { result: Err(format!("not-decodable: {e}")), store_before: store_before.clone(), store_after: store.creds().iter().map(snap).collect(), uv_calls: vec![] }),
            };
            let r = std::panic::catch_unwind(std::panic::AssertUnwindSafe(|| if c.via_trait { block_on(passkey_authenticator::Ctap2Api::get_assertion(&mut auth, req)) } else { block_on(auth.get_assertion(req)) })).map_err(|_| format!("get_assertion panicked: {}", crate::last_panic()))?;
            match r {
                Ok(resp) => {
                    let bytes = resp.auth_data.to_vec();
                    let ad = authdata::decode(&bytes)?;
                    Ok((ad.flags, resp.credential.map(|c| c.id.to_vec()).unwrap_or_default()))
                }
                Err(e) => Err(format!("0x{:02X}", u8::from(e))),
            }
        }
    };
    Ok(Outcome { result, store_before, store_after: store.creds().iter().map(snap).collect(), uv_calls: uv.calls() })
}

pub fn check(ctx: &mut Ctx, c: &Cfg) -> Result<(), String> {
    ctx.eval();
    ctx.nontrivial(c);
    let out = execute(c, c.matching)?;
    if matches!(&out.result, Err(e) if e.starts_with("not-decodable")) {
        ctx.measure("requests whose CBOR encoding with default options left out does not decode (C13's matter)", 1);
        return Ok(());
    }
    // what the store holds apart from the ceremony's own effect (the late credential arrives when the user is asked)
    let expected_before = |base: &[PkSnap], asked: bool| -> Vec<PkSnap> {
        let mut v: Vec<PkSnap> = base.to_vec();
        if c.store_changes_during_prompt && asked {
            v.insert(0, snap(&late_credential()));
        }
        v
    };
    let before: Vec<PkSnap> = expected_before(&out.store_before, !out.uv_calls.is_empty());
    // options as the authenticator sees them
    let (up, uv) = match c.client_uv_req {
        Some(r) => (true, r % 3 != 2),
        None => (c.up, c.uv),
    };
    let reported = match c.script.outcome {
        Ok((p, v)) => Some((p, v)),
        Err(_) => None,
    };
    // the consent the statement requires is missing in these classes
    let consent_missing = (uv && c.script.verification_enabled != Some(true)) || (c.create && !up) || reported.is_none() || reported.is_some_and(|(p, v)| (up && !p) || (uv && !v));
    match &out.result {
        Ok((flags, id)) => {
            ctx.class(if c.create { "create/success" } else { "assert/success" });
            if consent_missing {
                return Err(format!("succeeded although consent is missing (up={up} uv={uv}, capability {:?}, user validation outcome {:?})", c.script.verification_enabled, c.script.outcome));
            }
            let (p, v) = if out.uv_calls.is_empty() { (false, false) } else { reported.unwrap() };
            if (flags & UP != 0) != p || (flags & UV != 0) != v {
                return Err(format!("flags UP={} UV={} but the validation step reported presence={p} verification={v} ({} check_user calls)", flags & UP != 0, flags & UV != 0, out.uv_calls.len()));
            }
            if up && !(flags & UP != 0) || uv && !(flags & UV != 0) {
                return Err("a required presence/verification is not reflected in the flags".into());
            }
            if out.uv_calls.len() > 1 {
                // asking more than once is not forbidden by the statement; every time must show the signing credential
                ctx.measure("check_user called more than once", 1);
            }
            if !c.create {
                if out.uv_calls.is_empty() && (up || uv) {
                    return Err("an assertion was signed without any call of the user-validation step".into());
                }
                for call in &out.uv_calls {
                    let shown = call.credential_id.clone();
                    if shown.as_deref() != Some(id.as_slice()) {
                        return Err(format!("the credential shown to the user ({:?}) is not the one that signed ({})", shown.map(|s| crate::core::hex(&s)), crate::core::hex(id)));
                    }
                }
            }
        }
        Err(e) => {
            ctx.class(&format!("{}/{}", if c.create { "create" } else { "assert" }, if consent_missing { "error-consent-missing" } else { "error-other" }));
            if consent_missing {
                if out.store_after != before {
                    return Err(format!("the ceremony failed for lack of consent ({e}) but the store changed"));
                }
                // metamorphic: same outcome whether or not a matching credential exists
                let other = execute(c, !c.matching)?;
                if other.result != out.result {
                    return Err(format!("while consent is missing the outcome depends on whether a matching credential exists: {:?} (matching={}) vs {:?} (matching={})", out.result, c.matching, other.result, !c.matching));
                }
                let other_before: Vec<PkSnap> = expected_before(&other.store_before, !other.uv_calls.is_empty());
                if other.store_after != other_before {
                    return Err("the ceremony failed for lack of consent but the store changed (other store content)".into());
                }
                // the credential must not be disclosed to a validation step that is never consulted... and
                // check_user must not have been skipped into a silent success (covered above)
            } else if c.create && out.store_after != before {
                return Err(format!("registration failed ({e}) but the store changed"));
            }
        }
    }
    Ok(())
}

pub fn all_configs() -> Vec<Cfg> {
    let mut outcomes: Vec<Result<(bool, bool), u8>> = vec![Ok((false, false)), Ok((true, false)), Ok((false, true)), Ok((true, true))];
    outcomes.extend([Err(0x27u8), Err(0x2F), Err(0x2D)]);
    let mut v = vec![];
    // hmac-secret authenticators with a PRF input in the request (extension processing follows consent)
    for hmac in 1..4u8 {
        for create in [true, false] {
            for bits in [0u8, 2, 4, 6] {
                for ve in [Some(true), Some(false)] {
                    for o in &outcomes[..5] {
                        for matching in [false, true] {
                            let script = UvScript { presence_enabled: true, verification_enabled: ve, outcome: *o, yields: 0 };
                            v.push(Cfg { create, rk: false, up: bits & 2 != 0, uv: bits & 4 != 0, script, pin_auth: false, matching, exclude_list: false, client_uv_req: None, wire: 0, store_changes_during_prompt: false, warmed_up: false, via_trait: false, long_allow_list: false, hmac });
                        }
                    }
                }
            }
        }
    }
    for create in [true, false] {
        for bits in 0..8u8 {
            for ve in [None, Some(false), Some(true)] {
                for pe in [false, true] {
                    for o in &outcomes {
                        for pin_auth in [false, true] {
                            for matching in [false, true] {
                                let script = UvScript { presence_enabled: pe, verification_enabled: ve, outcome: *o, yields: 0 };
                                // wire 3 differs from 2 only when every option has its default
                                let wires: &[u8] = if bits == 2 { &[0, 2, 3] } else { &[0, 2] };
                                for &wire in wires {
                                    if create {
                                        for exclude_list in [false, true] {
                                            v.push(Cfg { create, rk: bits & 1 != 0, up: bits & 2 != 0, uv: bits & 4 != 0, script: script.clone(), pin_auth, matching, exclude_list, client_uv_req: None, wire, store_changes_during_prompt: false, warmed_up: false, via_trait: false, long_allow_list: false, hmac: 0 });
                                        }
                                    } else {
                                        v.push(Cfg { create, rk: bits & 1 != 0, up: bits & 2 != 0, uv: bits & 4 != 0, script: script.clone(), pin_auth, matching, exclude_list: false, client_uv_req: None, wire, store_changes_during_prompt: false, warmed_up: false, via_trait: false, long_allow_list: false, hmac: 0 });
                                    }
                                }
                            }
                        }
                    }
                }
            }
        }
    }
    // the same requests through the sealed trait entry point
    for create in [true, false] {
        for bits in 0..8u8 {
            for ve in [None, Some(false), Some(true)] {
                for pe in [false, true] {
                    for o in &outcomes {
                        for matching in [false, true] {
                            let script = UvScript { presence_enabled: pe, verification_enabled: ve, outcome: *o, yields: 0 };
                            v.push(Cfg { create, rk: bits & 1 != 0, up: bits & 2 != 0, uv: bits & 4 != 0, script, pin_auth: false, matching, exclude_list: create && matching, client_uv_req: None, wire: 0, store_changes_during_prompt: false, warmed_up: false, via_trait: true, long_allow_list: false, hmac: 0 });
                        }
                    }
                }
            }
        }
    }
    // assertions during which the store changes while the user is asked
    for bits in 0..8u8 {
        for ve in [None, Some(false), Some(true)] {
            for pe in [false, true] {
                for o in &outcomes {
                    for pin_auth in [false, true] {
                        for matching in [false, true] {
                            let script = UvScript { presence_enabled: pe, verification_enabled: ve, outcome: *o, yields: 0 };
                            v.push(Cfg { create: false, rk: bits & 1 != 0, up: bits & 2 != 0, uv: bits & 4 != 0, script, pin_auth, matching, exclude_list: false, client_uv_req: None, wire: 0, store_changes_during_prompt: true, warmed_up: false, via_trait: false, long_allow_list: false, hmac: 0 });
                        }
                    }
                }
            }
        }
    }
    // verification requested from an authenticator whose verification is absent or unconfigured *now*, after the same
    // authenticator served a verified ceremony while it was still configured
    for create in [true, false] {
        for bits in [4u8, 5, 6, 7] {
            for ve in [None, Some(false)] {
                for pe in [false, true] {
                    for o in &outcomes {
                        for matching in [false, true] {
                            let script = UvScript { presence_enabled: pe, verification_enabled: ve, outcome: *o, yields: 0 };
                            v.push(Cfg { create, rk: bits & 1 != 0, up: bits & 2 != 0, uv: true, script, pin_auth: false, matching, exclude_list: false, client_uv_req: None, wire: 0, store_changes_during_prompt: false, warmed_up: true, via_trait: false, long_allow_list: false, hmac: 0 });
                        }
                    }
                }
            }
        }
    }
    // through the client: requirement x capability x outcome x content
    for create in [true, false] {
        for req in 0..3u8 {
            for ve in [None, Some(false), Some(true)] {
                for o in &outcomes {
                    for matching in [false, true] {
                        for rk in [false, true] {
                            let script = UvScript { presence_enabled: true, verification_enabled: ve, outcome: *o, yields: 0 };
                            if !create && !rk {
                                v.push(Cfg { create, rk, up: true, uv: req != 2, script: script.clone(), pin_auth: false, matching, exclude_list: false, client_uv_req: Some(req), wire: 0, store_changes_during_prompt: false, warmed_up: false, via_trait: false, long_allow_list: true, hmac: 0 });
                            }
                            v.push(Cfg { create, rk, up: true, uv: req != 2, script, pin_auth: false, matching, exclude_list: create && matching, client_uv_req: Some(req), wire: 0, store_changes_during_prompt: false, warmed_up: false, via_trait: false, long_allow_list: false, hmac: 0 });
                        }
                    }
                }
            }
        }
    }
    v
}

pub fn run(ctx: &mut Ctx) {
    ctx.rule = "complete product: operation (create/assert) x requested rk,up,uv (8) x verification capability (none, unconfigured, configured) x presence capability (2) x user-validation outcome (4 presence/verification results + 3 error codes) x pin-auth (2) x request handed over as a value / through its CBOR encoding with default-valued options omitted (and the emptied options map omitted) x store content (matching credentials present/absent; for assertions also with a further credential of the RP put in front of the others while the user is being asked; create: exclude list absent/naming a held credential), each on a fresh authenticator (and, for verification requests without the capability, also on one that served a verified ceremony while the capability was still configured) with call-logging doubles; plus the authenticator-API product through the sealed Ctap2Api trait; plus the same through Client (UV requirement x capability x outcome x content x rk; assertions also with an allow list of ten descriptors); plus assertions on a store whose items convert into passkeys fallibly (1-3 items x convertible or not x allow list shapes): the item shown must be the credential that signs. Every configuration is distinct and non-trivial. Since round 8: 480 configurations on hmac-secret authenticators with a PRF input.".into();
    ctx.exhaustive = Some(true);
    ctx.assumptions = vec![
        "'consent is missing' = verification requested without configured capability, or create with up=false, or the validation step returned an error, or it did not report a presence/verification that was requested".into(),
        "store content 'present' holds two credentials of the RP (so that shown-vs-signing credential can differ) and one of another RP".into(),
    ];
    let all = all_configs();
    ctx.note("configurations", json!(all.len()));
    for c in &all {
        ctx.sample(&format!("{}{}", if c.create { "create" } else { "assert" }, if c.client_uv_req.is_some() { "/client" } else { "" }), || json!(c));
        if let Err(e) = check(ctx, c) {
            ctx.violation(if c.client_uv_req.is_some() { "product-client" } else { "product" }, json!(c), &e);
        }
    }
    // a store whose items are not plain passkeys: 1-3 items, each convertible or not, allow list absent / all / all but the first
    for items in 0..3u8 {
        for readable in 0..8u8 {
            for allow in 0..3u8 {
                let c = VaultCase { items, readable, allow };
                ctx.sample("vault", || json!(c));
                if let Err(e) = check_vault(ctx, &c) {
                    ctx.violation("vault", json!(c), &e);
                }
            }
        }
    }
}

// ------------------------------------------------------------------ stores whose items are not plain passkeys

/// what a vault-like store hands out: an item that may or may not convert into a passkey (locked, other kind of item)
#[derive(Clone, Debug)]
pub struct VaultItem {
    pk: Passkey,
    readable: bool,
}

impl TryFrom<VaultItem> for Passkey {
    type Error = ();
    fn try_from(v: VaultItem) -> Result<Passkey, ()> {
        if v.readable {
            Ok(v.pk)
        } else {
            Err(())
        }
    }
}

#[derive(Clone)]
struct VaultStore(std::sync::Arc<std::sync::Mutex<Vec<VaultItem>>>);

#[async_trait::async_trait]
impl passkey_authenticator::CredentialStore for VaultStore {
    type PasskeyItem = VaultItem;
    async fn find_credentials(&self, ids: Option<&[passkey_types::webauthn::PublicKeyCredentialDescriptor]>, rp_id: &str) -> Result<Vec<VaultItem>, passkey_types::ctap2::StatusCode> {
        let v: Vec<VaultItem> = self.0.lock().unwrap().iter().filter(|i| i.pk.rp_id == rp_id && ids.map_or(true, |l| l.iter().any(|d| d.id.as_slice() == i.pk.credential_id.as_slice()))).cloned().collect();
        if v.is_empty() {
            Err(passkey_types::ctap2::Ctap2Error::NoCredentials.into())
        } else {
            Ok(v)
        }
    }
    async fn save_credential(&mut self, cred: Passkey, _user: make_credential::PublicKeyCredentialUserEntity, _rp: make_credential::PublicKeyCredentialRpEntity, _options: get_assertion::Options) -> Result<(), passkey_types::ctap2::StatusCode> {
        self.0.lock().unwrap().push(VaultItem { pk: cred, readable: true });
        Ok(())
    }
    async fn update_credential(&mut self, cred: Passkey) -> Result<(), passkey_types::ctap2::StatusCode> {
        for i in self.0.lock().unwrap().iter_mut() {
            if i.pk.credential_id == cred.credential_id {
                i.pk = cred.clone();
            }
        }
        Ok(())
    }
    async fn get_info(&self) -> passkey_authenticator::StoreInfo {
        passkey_authenticator::StoreInfo { discoverability: passkey_authenticator::DiscoverabilitySupport::ForcedDiscoverable }
    }
}

#[derive(Clone)]
struct VaultUv {
    shown: std::sync::Arc<std::sync::Mutex<Vec<Option<Vec<u8>>>>>,
}

#[async_trait::async_trait]
impl passkey_authenticator::UserValidationMethod for VaultUv {
    type PasskeyItem = VaultItem;
    async fn check_user<'a>(&self, credential: Option<&'a VaultItem>, _presence: bool, _verification: bool) -> Result<passkey_authenticator::UserCheck, passkey_types::ctap2::Ctap2Error> {
        self.shown.lock().unwrap().push(credential.map(|c| c.pk.credential_id.to_vec()));
        Ok(passkey_authenticator::UserCheck { presence: true, verification: true })
    }
    fn is_presence_enabled(&self) -> bool {
        true
    }
    fn is_verification_enabled(&self) -> Option<bool> {
        Some(true)
    }
}

/// items of the RP in store order (bit i of `readable` = item i converts into a passkey), allow list 0 absent / 1 all / 2 all but the first
#[derive(Clone, Debug, Serialize, Deserialize, PartialEq, Eq, Hash)]
pub struct VaultCase {
    pub items: u8,
    pub readable: u8,
    pub allow: u8,
}

pub fn check_vault(ctx: &mut Ctx, c: &VaultCase) -> Result<(), String> {
    ctx.eval();
    ctx.nontrivial(c);
    let n = 1 + (c.items as usize % 3);
    let items: Vec<VaultItem> = (0..n).map(|k| VaultItem { pk: make_passkey(70 + k as u64, RP, format!("vault-item-{k}").as_bytes(), Some(b"uh"), Some(3), None), readable: c.readable & (1 << k) != 0 }).collect();
    let store = VaultStore(std::sync::Arc::new(std::sync::Mutex::new(items.clone())));
    let uv = VaultUv { shown: Default::default() };
    let mut auth = passkey_authenticator::Authenticator::new(passkey_types::ctap2::Aaguid::new_empty(), store, uv.clone());
    let allow = match c.allow % 3 {
        0 => None,
        1 => Some(items.iter().map(|i| cer::descriptor(&i.pk.credential_id)).collect::<Vec<_>>()),
        _ => Some(items.iter().skip(1).map(|i| cer::descriptor(&i.pk.credential_id)).collect::<Vec<_>>()),
    };
    let req = get_assertion::Request { rp_id: RP.into(), client_data_hash: vec![4u8; 32].into(), allow_list: allow, extensions: None, options: get_assertion::Options { rk: false, up: true, uv: true }, pin_auth: None, pin_protocol: None };
    let res = std::panic::catch_unwind(std::panic::AssertUnwindSafe(|| block_on(auth.get_assertion(req)))).map_err(|_| format!("get_assertion panicked: {}", crate::last_panic()))?;
    let shown = uv.shown.lock().unwrap().clone();
    ctx.class(&format!("vault/{}", if res.is_ok() { "assertion" } else { "error" }));
    if let Ok(r) = res {
        let signer = r.credential.as_ref().map(|d| d.id.to_vec()).ok_or("no credential in the response")?;
        if shown.is_empty() {
            return Err("an assertion was signed without consulting the user".into());
        }
        for s in &shown {
            if s.as_deref() != Some(signer.as_slice()) {
                return Err(format!("the item shown to the user ({:?}) is not the credential that signed ({:?})", s.as_ref().map(|b| String::from_utf8_lossy(b).to_string()), String::from_utf8_lossy(&signer)));
            }
        }
    }
    Ok(())
}

pub fn replay(ctx: &mut Ctx, stage: &str, case: &Value) -> Result<(), String> {
    if stage == "vault" {
        let c: VaultCase = serde_json::from_value(case.clone()).map_err(|e| format!("bad case: {e}"))?;
        return check_vault(ctx, &c);
    }
    let c: Cfg = serde_json::from_value(case.clone()).map_err(|e| format!("bad case: {e}"))?;
    check(ctx, &c)
}
