//! C08 — signature counters strictly increase and equal what the store holds.

use proptest::prelude::*;
use serde_json::{json, Value};

use crate::ceremony::{self as cm, AllowSel, AuthOp, CdMode, History, IdRef, Op, Oracles, StoreKind};
use crate::core::{search, Ctx, Search};
use crate::rt::Disc;

fn start_counter() -> impl Strategy<Value = Option<u32>> {
    prop_oneof![
        2 => Just(None),
        1 => Just(Some(0)),
        1 => Just(Some(1)),
        1 => Just(Some((1u32 << 31) - 1)),
        1 => Just(Some(1u32 << 31)),
        2 => Just(Some(u32::MAX - 2)),
        2 => Just(Some(u32::MAX - 1)),
        2 => Just(Some(u32::MAX)),
        2 => any::<u32>().prop_map(Some),
    ]
}

fn strategy() -> impl Strategy<Value = History> {
    let sites = vec![0usize, 1, 2];
    // targeted by an allow list of one to three known ids (several may match: the store's first is used), or discovered
    let auth = (proptest::collection::vec(any::<u16>(), 1..4), proptest::bool::weighted(0.8), cm::bytes(32), any::<u8>(), any::<u16>()).prop_map(|(ks, targeted, challenge, uv, s)| {
        let ks = if uv % 2 == 0 { ks[..1].to_vec() } else { ks };
        Op::Auth(AuthOp { site: [0usize, 1, 2, 8][s as usize % 4], prf: ((s / 4) % 3 == 0).then(|| challenge.clone()), challenge, allow: if targeted { AllowSel::Ids(ks.into_iter().map(|k| IdRef::Known(k, true)).collect()) } else { AllowSel::Absent }, cd: CdMode::Default, uv })
    });
    let fault = (any::<u16>(), cm::bytes(16), prop_oneof![Just(0x2Eu8), Just(0x28), Just(0x7F), Just(0x01), Just(0x00)]).prop_map(|(k, challenge, code)| {
        Op::AuthUpdateFault(AuthOp { site: 0, challenge, allow: AllowSel::Ids(vec![IdRef::Known(k, true)]), cd: CdMode::Default, uv: 0, prf: None }, code)
    });
    let reg = cm::reg_op(sites).prop_map(|mut r| {
        r.algs = vec![-7];
        Op::Reg(r)
    });
    (
        prop_oneof![3 => Just(StoreKind::Ref), 2 => Just(StoreKind::Memory), 1 => Just(StoreKind::OptionSlot)],
        (cm::auth_cfg(), prop_oneof![2 => Just(crate::cer::HmacCfg::None), 1 => Just(crate::cer::HmacCfg::WithoutUv), 1 => Just(crate::cer::HmacCfg::UvOnly)]).prop_map(|(mut c, h)| {
            c.hmac = h;
            c
        }),
        proptest::collection::vec((0usize..3, start_counter(), any::<bool>()), 1..5),
        prop_oneof![2 => Just(Disc::ForcedDiscoverable), 2 => Just(Disc::Full), 1 => Just(Disc::OnlyNonDiscoverable)],
        proptest::collection::vec(prop_oneof![16 => auth, 3 => reg, 1 => fault, 4 => (any::<u16>(), any::<bool>(), any::<bool>(), any::<bool>()).prop_map(|(target, up, uv, extra_uv)| Op::CtapAuth { target, up, uv, extra_uv })], 2..41),
    )
        .prop_map(|(store, cfg, mut preload, disc, mut ops)| {
            if store != StoreKind::Ref {
                // the shipped stores look credentials up by id only (known finding D5 under C05): one RP
                for p in preload.iter_mut() {
                    p.0 = 0;
                }
                for o in ops.iter_mut() {
                    match o {
                        Op::Auth(a) | Op::AuthUpdateFault(a, _) => a.site = 0,
                        Op::Reg(r) | Op::RegSaveFault(r, _) => r.site = 0,
                        Op::CtapAuth { .. } => {}
                    }
                }
            }
            // the capability only exists on the reference store (the shipped stores force discoverability)
            History { store, disc: if store == StoreKind::Ref { disc } else { Disc::ForcedDiscoverable }, cfg, preload, ops }
        })
}

fn check(ctx: &mut Ctx, h: &History) -> Result<(), String> {
    let stats = cm::run_history(h, Oracles { c08: true, ..Default::default() })?;
    ctx.eval();
    ctx.class_n("assertions/on-counted-credential", stats.counted_assertions);
    ctx.class_n("assertions/success", stats.auth_ok);
    ctx.class_n("assertions/not-found", stats.auth_not_found);
    ctx.class_n("assertions/other-error(measured)", stats.auth_unexpected_err);
    ctx.class_n("assertions/failed-while-store-rejects-update", stats.auth_faulted_err);
    ctx.class_n("assertions/prf-request-refused(measured)", stats.auth_prf_refused);
    ctx.class(&format!("store/{:?}", h.store));
    let near_max = h.preload.iter().any(|(_, c, _)| c.is_some_and(|c| c >= u32::MAX - 2));
    if near_max {
        ctx.class("history/start-within-2-of-max");
    }
    if stats.counted_assertions >= 2 || (near_max && stats.counted_assertions >= 1) {
        ctx.nontrivial(&serde_json::to_string(h).unwrap());
    }
    if stats.auth_unexpected_err > 0 {
        ctx.note("last_unexpected_error", json!(stats.last_error));
    }
    ctx.sample(&format!("history/{:?}/{}", h.store, if near_max { "near-max" } else { "normal" }), || json!(h));
    Ok(())
}

pub fn run(ctx: &mut Ctx) {
    ctx.rule = "histories of 2-40 assertions through Client and at the CTAP2 level (there also with up=false / uv=false and a user-validation step that reports exactly what was asked), plus occasional registrations, interleaved over 1-4 pre-loaded credentials on up to 3 RPs, with start counters from {none, 0, 1, 2^31-1, 2^31, 2^32-3, 2^32-2, 2^32-1, random}, targeted by an allow list of one to three held credentials or discovered, on the reference store (capability full / forced discoverable / non-discoverable only), MemoryStore and the Option store, counters for new credentials on/off; plus histories on a shared in-memory map from which another party removes the selected credential while the user is asked. Since rounds 7/8: pre-loaded credentials without hmac-secret material, PRF requests independent of the UV requirement, a user who gives what each request asks for, the transports builder after the counter setter; a failed authentication must not move a stored counter backwards. Non-trivial = at least two successful assertions on counted credentials, or at least one with a start value within 2 of the maximum; distinct by history.".into();
    ctx.assumptions = vec![
        "per-credential model: below the maximum each success reports previous+1 and that value is what the store then holds; at the maximum the reported and stored value is not smaller and there is no panic".into(),
        "credentials without counter: report 0, record unchanged, no update call (reference store log)".into(),
    ];
    let n = ctx.tier.pick(1_500u32, 300_000u32);
    match search(ctx, 8, n, strategy(), check) {
        Search::Pass => {}
        Search::Fail(h, msg) => ctx.violation("histories", json!(h), &msg),
    }
    // a shared in-memory map from which another party removes the selected credential while the user is asked: an assertion
    // that is answered reports the value the store holds afterwards (histories of the C07 'shipped' engine, counters on)
    let removal = (proptest::collection::vec((any::<u8>(), any::<bool>(), any::<bool>()), 1..5), any::<bool>()).prop_map(|(v, rk)| {
        use crate::props::c07::{SOp, Shipped};
        let mut ops = vec![SOp::Create { exclude_hit: false, alg_supported: true, deny: false, rk }, SOp::Create { exclude_hit: false, alg_supported: true, deny: false, rk: !rk }];
        for (target, removed, again) in v {
            ops.push(SOp::Assert { target, prf: false, deny: false, removed_during_prompt: removed, advanced_during_prompt: 0 });
            if again {
                ops.push(SOp::Create { exclude_hit: false, alg_supported: true, deny: false, rk });
            }
        }
        Shipped { store: 2, counter_cfg: true, hmac: crate::cer::HmacCfg::None, ops }
    });
    let n = ctx.tier.pick(400u32, 100_000u32);
    match search(ctx, 18, n, removal, crate::props::c07::check_shipped) {
        Search::Pass => {}
        Search::Fail(c, msg) => ctx.violation("removed-during-prompt", json!(c), &msg),
    }
    if ctx.violations.is_empty() && ctx.class_count("assertions/on-counted-credential") == 0 {
        eprintln!("C08: vacuous run");
        std::process::exit(2);
    }
}

pub fn replay(ctx: &mut Ctx, stage: &str, case: &Value) -> Result<(), String> {
    if stage == "removed-during-prompt" {
        let c: crate::props::c07::Shipped = serde_json::from_value(case.clone()).map_err(|e| format!("bad case: {e}"))?;
        return crate::props::c07::check_shipped(ctx, &c);
    }
    let h: History = serde_json::from_value(case.clone()).map_err(|e| format!("bad case: {e}"))?;
    check(ctx, &h)
}
