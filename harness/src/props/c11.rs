//! C11 — discoverability follows request and store capability and is reported truthfully.
//! Complete enumeration of the finite configuration product.

use passkey_client::{Client, DefaultClientData};
use passkey_types::ctap2::{get_assertion, make_credential};
use passkey_types::webauthn::{AuthenticationExtensionsClientInputs, ResidentKeyRequirement};
use serde::{Deserialize, Serialize};
use serde_json::{json, Value};

use crate::cer::{self, AuthCfg};
use crate::ceremony::SITES;
use crate::core::Ctx;
use crate::model::rpid::{HProvider, ProviderKind};
use crate::rt::{block_on, Disc, RefStore, ScriptedUv, StoreCall, UvScript};

#[derive(Clone, Debug, Serialize, Deserialize, PartialEq, Eq, Hash)]
pub struct Cfg {
    pub cap: Disc,
    /// client level: Some((residentKey 0 absent/1 discouraged/2 preferred/3 required, requireResidentKey, credProps 0 absent/1 false/2 true, selection present))
    pub client: Option<(u8, bool, u8, bool)>,
    /// also request the PRF extension on an authenticator that supports it (credProps must not be affected)
    #[serde(default)]
    pub prf: bool,
    /// CTAP level rk
    pub ctap_rk: Option<bool>,
    /// the store's capability changes to this while the user is being asked during registration (e.g. the user picks
    /// another vault in the prompt); only "credProps equals what was stored" and the assertion rules are judged then
    #[serde(default)]
    pub cap_after_prompt: Option<Disc>,
    /// how the store with that capability is handed to the authenticator: 0 as it is, 1 tokio Mutex, 2 tokio RwLock,
    /// 3 Arc<Mutex>, 4 Arc<RwLock> (the wrappers must pass the capability on)
    #[serde(default)]
    pub wrap: u8,
    /// user-verification capability of the authenticator: 0 configured, 1 present but not configured, 2 absent
    /// (then every ceremony runs with userVerification discouraged)
    #[serde(default)]
    pub uv_cap: u8,
    /// Arc wrappers only: another task holds the store's lock when the registration starts and releases it once the
    /// ceremony cannot get any further (the capability must still be the store's own)
    #[serde(default)]
    pub contended: bool,
    /// before the judged ceremony the same authenticator registered a resident credential while the store still had
    /// this capability (whatever it learnt then must not outlive the change)
    #[serde(default)]
    pub prior: Option<Disc>,
    /// length of the user id (0 = the 15-byte default); WebAuthn allows 1..=64 bytes
    #[serde(default)]
    pub user_len: u8,
    /// k > 0 (with residentKey absent): the options travel as JSON and carry the k-th unknown residentKey string, which a
    /// client has to treat like an absent member
    #[serde(default)]
    pub rk_json: u8,
    /// relying party of the client ceremonies: 0 the usual one; k > 0 the k-th of the RP IDs that the library's own sources
    /// mention by name (a dictionary, as a fuzzer would use one)
    #[serde(default)]
    pub named_rp: u8,
}

/// RP IDs that occur literally in the repository's sources (quirks table, tests, documentation)
const NAMED_RPS: [crate::ceremony::Site; 4] = [
    crate::ceremony::Site { url: Some("https://www.adobe.com"), android_host: None, rp: Some("adobe.com"), effective: "adobe.com" },
    crate::ceremony::Site { url: Some("https://hyatt.com"), android_host: None, rp: None, effective: "hyatt.com" },
    crate::ceremony::Site { url: Some("https://future.1password.com"), android_host: None, rp: Some("future.1password.com"), effective: "future.1password.com" },
    crate::ceremony::Site { url: Some("https://accounts.hyatt.com"), android_host: None, rp: Some("hyatt.com"), effective: "hyatt.com" },
];

const UNKNOWN_RK: [&str; 4] = ["mandatory", "Required", "", "discoverable"];

type Acquire = Box<dyn Fn() -> Box<dyn std::any::Any>>;

/// run a ceremony, optionally while another party holds the store lock for as long as the ceremony can make progress
fn run_held<T>(fut: impl std::future::Future<Output = T>, acquire: Option<&Acquire>) -> Result<T, String> {
    let Some(acquire) = acquire else { return Ok(block_on(fut)) };
    let guard = acquire();
    let mut t = crate::rt::Task::new(fut);
    for _ in 0..50 {
        if t.poll() || !t.is_runnable() {
            break;
        }
    }
    drop(guard);
    let mut n = 0;
    while !t.is_done() {
        if n > 5000 {
            return Err("the ceremony never completes after the store lock was released".into());
        }
        t.poll();
        n += 1;
    }
    t.output.take().ok_or_else(|| "no output".to_string())
}

fn mapped_rk(resident_key: u8, require: bool, supports_rk: bool) -> bool {
    match resident_key {
        3 => true,
        2 => supports_rk,
        1 => false,
        _ => require,
    }
}

pub fn check(ctx: &mut Ctx, c: &Cfg) -> Result<(), String> {
    use std::sync::Arc;
    use tokio::sync::{Mutex, RwLock};
    ctx.eval();
    ctx.nontrivial(c);
    let store = RefStore::new(c.cap);
    match c.wrap % 5 {
        0 => check_with(ctx, c, store.clone(), store, None),
        1 => check_with(ctx, c, Mutex::new(store.clone()), store, None),
        2 => check_with(ctx, c, RwLock::new(store.clone()), store, None),
        3 => {
            let arc = Arc::new(Mutex::new(store.clone()));
            let a2 = arc.clone();
            let acquire: Acquire = Box::new(move || Box::new(block_on(a2.clone().lock_owned())) as Box<dyn std::any::Any>);
            check_with(ctx, c, arc, store, c.contended.then_some(acquire))
        }
        _ => {
            let arc = Arc::new(RwLock::new(store.clone()));
            let a2 = arc.clone();
            let acquire: Acquire = Box::new(move || Box::new(block_on(a2.clone().write_owned())) as Box<dyn std::any::Any>);
            check_with(ctx, c, arc, store, c.contended.then_some(acquire))
        }
    }
}

fn check_with<S: passkey_authenticator::CredentialStore<PasskeyItem = passkey_types::Passkey> + Send + Sync>(ctx: &mut Ctx, c: &Cfg, wrapped: S, store: RefStore, acquire: Option<Acquire>) -> Result<(), String> {
    if acquire.is_some() {
        ctx.class("registration while another task holds the store lock");
    }
    // user-verification capability: when it is not configured every ceremony runs with userVerification discouraged
    let uv_ok = c.uv_cap % 3 == 0;
    let base_script = || UvScript { verification_enabled: [Some(true), Some(false), None][c.uv_cap as usize % 3], outcome: Ok((true, uv_ok)), ..UvScript::verified() };
    let uv = ScriptedUv::new(base_script());
    if let Some(new_cap) = c.cap_after_prompt {
        let s2 = store.clone();
        uv.on_next_check(move || s2.set_disc(new_cap));
    }
    let dynamic = c.cap_after_prompt.is_some();
    let uv_handle = uv.clone();
    #[allow(unused_mut)]
    let mut auth = cer::build_authenticator(wrapped, uv, &AuthCfg { counter: true, hmac: if c.prf { crate::cer::HmacCfg::WithoutUvMc } else { crate::cer::HmacCfg::None }, ..Default::default() });
    if let (Some(prior), None) = (c.prior, c.cap_after_prompt) {
        store.set_disc(prior);
        let warm = make_credential::Request {
            client_data_hash: vec![6u8; 32].into(),
            rp: make_credential::PublicKeyCredentialRpEntity { id: "example.com".into(), name: None },
            user: passkey_types::webauthn::PublicKeyCredentialUserEntity { id: b"c11-earlier-user".to_vec().into(), display_name: "d".into(), name: "n".into() },
            pub_key_cred_params: cer::params(&[-7]),
            exclude_list: None,
            extensions: None,
            options: make_credential::Options { rk: true, up: true, uv: uv_ok },
            pin_auth: None,
            pin_protocol: None,
        };
        let _ = block_on(auth.make_credential(warm));
        let _ = block_on(auth.get_info());
        store.0.lock().unwrap().creds.clear();
        store.clear_log();
        store.set_disc(c.cap);
        ctx.class("after an earlier resident registration under another capability");
    }
    let supports_rk = c.cap != Disc::OnlyNonDiscoverable;
    let site = if c.named_rp == 0 { &SITES[0] } else { &NAMED_RPS[(c.named_rp as usize - 1) % NAMED_RPS.len()] };
    if c.named_rp != 0 {
        ctx.class("relying party named in the library's sources");
    }
    let handle: Vec<u8> = if c.user_len == 0 { b"c11-user-handle".to_vec() } else { (0..c.user_len).map(|i| b'a' + i % 26).collect() };
    if c.user_len != 0 {
        ctx.class(&format!("user id of {} bytes", c.user_len));
    }
    if let Some((rkreq, require, cred_props, with_sel)) = c.client {
        let mut client = Client::new_with_custom_tld_provider(auth, HProvider::new(ProviderKind::Default));
        let rk = if with_sel { mapped_rk(rkreq, require, supports_rk) } else { false };
        let sel = with_sel.then(|| {
            cer::selection(
                match rkreq {
                    1 => Some(ResidentKeyRequirement::Discouraged),
                    2 => Some(ResidentKeyRequirement::Preferred),
                    3 => Some(ResidentKeyRequirement::Required),
                    _ => None,
                },
                require,
                cer::uv_req(if uv_ok { 1 } else { 2 }),
            )
        });
        let prf_in = c.prf.then(|| passkey_types::webauthn::AuthenticationExtensionsPrfInputs { eval: Some(passkey_types::webauthn::AuthenticationExtensionsPrfValues { first: b"c11".to_vec().into(), second: None }), eval_by_credential: None });
        let ext = match cred_props {
            0 => prf_in.map(|p| AuthenticationExtensionsClientInputs { prf: Some(p), ..Default::default() }),
            1 => Some(AuthenticationExtensionsClientInputs { cred_props: Some(false), prf: prf_in, ..Default::default() }),
            _ => Some(AuthenticationExtensionsClientInputs { cred_props: Some(true), prf: prf_in, ..Default::default() }),
        };
        let mut req = cer::creation_options(site.rp, b"c11 challenge", &handle, "user", &[-7], None, sel, ext);
        if c.rk_json > 0 && with_sel && rkreq == 0 {
            let mut v = serde_json::to_value(&req).map_err(|e| format!("creation options do not serialise: {e}"))?;
            v["publicKey"]["authenticatorSelection"]["residentKey"] = serde_json::json!(UNKNOWN_RK[c.rk_json as usize % UNKNOWN_RK.len()]);
            match serde_json::from_value(v) {
                Ok(r) => {
                    req = r;
                    ctx.class("options through JSON with an unknown residentKey string");
                }
                Err(_) => {
                    // whether such a document parses is C14's question
                    ctx.measure("options with an unknown residentKey string did not parse (C14's matter)", 1);
                    return Ok(());
                }
            }
        }
        let res = run_held(client.register(site.origin(), req, DefaultClientData), acquire.as_ref())?;
        let refused_expected = rk && c.cap == Disc::OnlyNonDiscoverable;
        let creds = store.creds();
        match res {
            Err(_) if dynamic => {
                ctx.class("client/refused-dynamic");
                if !creds.is_empty() {
                    return Err("a refused registration stored a credential".into());
                }
                return Ok(());
            }
            Err(e) => {
                ctx.class("client/refused");
                if !refused_expected {
                    return Err(format!("registration failed with {e:?} but the configuration is satisfiable (rk option {rk})"));
                }
                if !creds.is_empty() {
                    return Err("a refused registration stored a credential".into());
                }
                return Ok(());
            }
            Ok(cred) => {
                ctx.class(if dynamic { "client/registered-dynamic" } else { "client/registered" });
                if refused_expected && !dynamic {
                    return Err(format!("a required resident key was accepted by a store that can only hold non-discoverable credentials (stored handle present: {:?})", creds.first().map(|c| c.user_handle.is_some())));
                }
                // the rk option the authenticator passed on
                let sent: Vec<bool> = store.log().iter().filter_map(|c| if let StoreCall::Save { rk, .. } = c { Some(*rk) } else { None }).collect();
                if sent != vec![rk] && !dynamic {
                    return Err(format!("resident-key option sent to the authenticator/store was {sent:?}, the WebAuthn mapping gives {rk}"));
                }
                if creds.len() != 1 {
                    return Err(format!("{} credentials stored", creds.len()));
                }
                let discoverable = creds[0].user_handle.is_some();
                if discoverable != c.cap.discoverable(rk) && !dynamic {
                    return Err(format!("stored user handle present = {discoverable}, capability {:?} with rk={rk} means {}", c.cap, c.cap.discoverable(rk)));
                }
                if discoverable && creds[0].user_handle.as_ref().map(|b| b.to_vec()) != Some(handle.clone()) {
                    return Err("stored user handle is not the request's user id".into());
                }
                let cp = cred.client_extension_results.cred_props.as_ref();
                if cred_props == 2 {
                    match cp.and_then(|p| p.discoverable) {
                        Some(v) if v == discoverable => {}
                        other => return Err(format!("credProps.rk = {other:?} but the stored credential is discoverable = {discoverable}")),
                    }
                } else if let Some(p) = cp {
                    if p.discoverable.is_some_and(|v| v != discoverable) {
                        return Err("unrequested credProps output contradicts the stored credential".into());
                    }
                }
                // what the relying party receives is the serialised credential: the requested output is in there as well
                if cred_props == 2 {
                    let wire = serde_json::to_value(&cred).map_err(|e| format!("the created credential does not serialise: {e}"))?;
                    let rk = wire.get("clientExtensionResults").and_then(|x| x.get("credProps")).and_then(|x| x.get("rk")).and_then(|x| x.as_bool());
                    if rk != Some(discoverable) {
                        return Err(format!("the serialised credential carries credProps.rk = {rk:?} (clientExtensionResults = {}), the stored credential is discoverable = {discoverable}", wire.get("clientExtensionResults").map(|v| v.to_string()).unwrap_or_default()));
                    }
                }
                // now assertions (several: the stored record is rewritten by the counter update in between)
                for round in 1..=3u8 {
                    // preferred, discouraged (the validation step then only reports presence), required
                    uv_handle.set(if round == 2 || !uv_ok { UvScript { outcome: Ok((true, false)), ..base_script() } } else { base_script() });
                    let req = cer::request_options(site.rp, b"c11 challenge 2", Some(vec![cer::descriptor(&cred.raw_id)]), cer::uv_req(if uv_ok { round } else { 2 }), None);
                    let a = match block_on(client.authenticate(site.origin(), req, DefaultClientData)) {
                        Ok(a) => a,
                        Err(_) => {
                            // the statement speaks about what an assertion returns, not about when it succeeds
                            ctx.measure("follow-up assertion failed (not judged)", 1);
                            break;
                        }
                    };
                    let stored_now = store.creds().first().map(|c| c.user_handle.is_some()).unwrap_or(false);
                    if stored_now != discoverable {
                        return Err(format!("after assertion #{round} the stored credential's user handle present = {stored_now}, it was {discoverable} after registration"));
                    }
                    if a.response.user_handle.is_some() != discoverable {
                        return Err(format!("assertion #{round} returned a user handle = {}, the credential stores one = {discoverable}", a.response.user_handle.is_some()));
                    }
                    if discoverable && a.response.user_handle.map(|b| b.to_vec()) != Some(handle.clone()) {
                        return Err(format!("assertion #{round} returned a different user handle than stored"));
                    }
                }
                // a second credential of the RP, and an allow list that names both: whichever is used, the user handle
                // returned is the one that credential stores
                let sibling = crate::model::util::make_passkey(88, site.effective, b"c11-sibling-credential", Some(b"c11-sibling-handle"), Some(4), None);
                store.0.lock().unwrap().creds.push(sibling.clone());
                uv_handle.set(if uv_ok { base_script() } else { UvScript { outcome: Ok((true, false)), ..base_script() } });
                let req = cer::request_options(site.rp, b"c11 challenge 3", Some(vec![cer::descriptor(&cred.raw_id), cer::descriptor(&sibling.credential_id)]), cer::uv_req(if uv_ok { 1 } else { 2 }), None);
                if let Ok(a) = block_on(client.authenticate(site.origin(), req, DefaultClientData)) {
                    let used = store.creds().into_iter().find(|p| p.credential_id.as_slice() == a.raw_id.as_slice()).ok_or("assertion with an unknown credential")?;
                    let stored = used.user_handle.as_ref().map(|b| b.to_vec());
                    if a.response.user_handle.as_ref().map(|b| b.to_vec()) != stored {
                        return Err(format!("allow list naming two held credentials: the assertion returned user handle present = {}, the credential used stores one = {}", a.response.user_handle.is_some(), stored.is_some()));
                    }
                    ctx.class("assertion with an allow list naming two held credentials");
                }
            }
        }
    } else if let Some(rk) = c.ctap_rk {
        let mut auth = auth;
        let req = make_credential::Request {
            client_data_hash: vec![7u8; 32].into(),
            rp: make_credential::PublicKeyCredentialRpEntity { id: "example.com".into(), name: None },
            user: passkey_types::webauthn::PublicKeyCredentialUserEntity { id: handle.clone().into(), display_name: "d".into(), name: "n".into() },
            pub_key_cred_params: cer::params(&[-7]),
            exclude_list: None,
            extensions: None,
            options: make_credential::Options { rk, up: true, uv: uv_ok },
            pin_auth: None,
            pin_protocol: None,
        };
        let res = run_held(auth.make_credential(req), acquire.as_ref())?;
        let refused_expected = rk && c.cap == Disc::OnlyNonDiscoverable;
        let creds = store.creds();
        match res {
            Err(e) => {
                ctx.class("ctap/refused");
                if !refused_expected {
                    return Err(format!("make_credential failed with {e:?} for a satisfiable configuration"));
                }
                if !creds.is_empty() {
                    return Err("a refused make_credential stored a credential".into());
                }
            }
            Ok(r) => {
                ctx.class("ctap/registered");
                if refused_expected {
                    return Err("rk=true accepted by a store that can only hold non-discoverable credentials".into());
                }
                let discoverable = creds.first().map(|c| c.user_handle.is_some()).ok_or("nothing stored")?;
                if discoverable != c.cap.discoverable(rk) {
                    return Err(format!("stored user handle present = {discoverable}, capability {:?} with rk={rk} means {}", c.cap, c.cap.discoverable(rk)));
                }
                let id = r.auth_data.attested_credential_data.as_ref().ok_or("no attested data")?.credential_id().to_vec();
                for round in 1..=3u8 {
                    uv_handle.set(if round == 2 || !uv_ok { UvScript { outcome: Ok((true, false)), ..base_script() } } else { base_script() });
                    let a = block_on(auth.get_assertion(get_assertion::Request {
                        rp_id: "example.com".into(),
                        client_data_hash: vec![9u8; 32].into(),
                        allow_list: Some(vec![cer::descriptor(&id)]),
                        extensions: None,
                        options: get_assertion::Options { rk: false, up: true, uv: round != 2 && uv_ok },
                        pin_auth: None,
                        pin_protocol: None,
                    }))
                    .map_err(|e| format!("get_assertion #{round} failed: {e:?}"))?;
                    if a.user.is_some() != discoverable {
                        return Err(format!("get_assertion #{round} returned user = {}, the credential stores a handle = {discoverable}", a.user.is_some()));
                    }
                }
            }
        }
    }
    Ok(())
}

pub fn all_configs() -> Vec<Cfg> {
    let mut v = vec![];
    for cap in Disc::ALL {
        for rkreq in 0..4u8 {
            for require in [false, true] {
                for cp in 0..3u8 {
                    for prf in [false, true] {
                        v.push(Cfg { cap, client: Some((rkreq, require, cp, true)), ctap_rk: None, prf, cap_after_prompt: None, wrap: 0, uv_cap: 0, contended: false, prior: None, user_len: 0, rk_json: 0, named_rp: 0 });
                    }
                }
            }
        }
        // no authenticatorSelection at all
        for cp in 0..3u8 {
            v.push(Cfg { cap, client: Some((0, false, cp, false)), ctap_rk: None, prf: false, cap_after_prompt: None, wrap: 0, uv_cap: 0, contended: false, prior: None, user_len: 0, rk_json: 0, named_rp: 0 });
            v.push(Cfg { cap, client: Some((0, false, cp, false)), ctap_rk: None, prf: true, cap_after_prompt: None, wrap: 0, uv_cap: 0, contended: false, prior: None, user_len: 0, rk_json: 0, named_rp: 0 });
        }
        for rk in [false, true] {
            v.push(Cfg { cap, client: None, ctap_rk: Some(rk), prf: false, cap_after_prompt: None, wrap: 0, uv_cap: 0, contended: false, prior: None, user_len: 0, rk_json: 0, named_rp: 0 });
        }
        // the store handed over inside each lock wrapper, and authenticators whose user verification is not configured / absent
        for rkreq in 0..4u8 {
            for require in [false, true] {
                for wrap in 1..5u8 {
                    v.push(Cfg { cap, client: Some((rkreq, require, 2, true)), ctap_rk: None, prf: false, cap_after_prompt: None, wrap, uv_cap: 0, contended: false, prior: None, user_len: 0, rk_json: 0, named_rp: 0 });
                }
                for uv_cap in 1..3u8 {
                    v.push(Cfg { cap, client: Some((rkreq, require, 2, true)), ctap_rk: None, prf: false, cap_after_prompt: None, wrap: 0, uv_cap, contended: false, prior: None, user_len: 0, rk_json: 0, named_rp: 0 });
                }
            }
        }
        for rk in [false, true] {
            for wrap in 1..5u8 {
                v.push(Cfg { cap, client: None, ctap_rk: Some(rk), prf: false, cap_after_prompt: None, wrap, uv_cap: 0, contended: false, prior: None, user_len: 0, rk_json: 0, named_rp: 0 });
            }
            for uv_cap in 1..3u8 {
                v.push(Cfg { cap, client: None, ctap_rk: Some(rk), prf: false, cap_after_prompt: None, wrap: 0, uv_cap, contended: false, prior: None, user_len: 0, rk_json: 0, named_rp: 0 });
            }
        }
        // the judged registration follows an earlier resident registration made while the store had another capability
        for prior in Disc::ALL.into_iter().filter(|p| *p != cap && *p != Disc::OnlyNonDiscoverable) {
            for rkreq in 0..4u8 {
                for require in [false, true] {
                    v.push(Cfg { cap, client: Some((rkreq, require, 2, true)), ctap_rk: None, prf: false, cap_after_prompt: None, wrap: 0, uv_cap: 0, contended: false, prior: Some(prior), user_len: 0, rk_json: 0, named_rp: 0 });
                }
            }
            for rk in [false, true] {
                v.push(Cfg { cap, client: None, ctap_rk: Some(rk), prf: false, cap_after_prompt: None, wrap: 0, uv_cap: 0, contended: false, prior: Some(prior), user_len: 0, rk_json: 0, named_rp: 0 });
            }
        }
        // registrations through the Arc wrappers while another task holds the store lock
        for wrap in [3u8, 4] {
            for rkreq in 0..4u8 {
                for require in [false, true] {
                    v.push(Cfg { cap, client: Some((rkreq, require, 2, true)), ctap_rk: None, prf: false, cap_after_prompt: None, wrap, uv_cap: 0, contended: true, prior: None, user_len: 0, rk_json: 0, named_rp: 0 });
                }
            }
            for rk in [false, true] {
                v.push(Cfg { cap, client: None, ctap_rk: Some(rk), prf: false, cap_after_prompt: None, wrap, uv_cap: 0, contended: true, prior: None, user_len: 0, rk_json: 0, named_rp: 0 });
            }
        }
        // user ids of every boundary length WebAuthn allows, and options that travel as JSON with an unknown residentKey string
        for user_len in [1u8, 2, 16, 32, 63, 64] {
            for (rkreq, require) in [(0u8, false), (0, true), (2, false), (3, true)] {
                v.push(Cfg { cap, client: Some((rkreq, require, 2, true)), ctap_rk: None, prf: false, cap_after_prompt: None, wrap: 0, uv_cap: 0, contended: false, prior: None, user_len, rk_json: 0, named_rp: 0 });
            }
            for rk in [false, true] {
                v.push(Cfg { cap, client: None, ctap_rk: Some(rk), prf: false, cap_after_prompt: None, wrap: 0, uv_cap: 0, contended: false, prior: None, user_len, rk_json: 0, named_rp: 0 });
            }
        }
        for named_rp in 1..5u8 {
            for (rkreq, require) in [(0u8, false), (3, true), (1, false)] {
                for cp in [0u8, 2] {
                    v.push(Cfg { cap, client: Some((rkreq, require, cp, true)), ctap_rk: None, prf: false, cap_after_prompt: None, wrap: 0, uv_cap: 0, contended: false, prior: None, user_len: 0, rk_json: 0, named_rp });
                }
            }
        }
        for rk_json in 1..5u8 {
            for require in [false, true] {
                for cp in [0u8, 2] {
                    v.push(Cfg { cap, client: Some((0, require, cp, true)), ctap_rk: None, prf: false, cap_after_prompt: None, wrap: 0, uv_cap: 0, contended: false, prior: None, user_len: 0, rk_json, named_rp: 0 });
                }
            }
        }
        // the capability changes while the user is being asked (credProps requested)
        for new_cap in Disc::ALL.into_iter().filter(|n| *n != cap) {
            for rkreq in 0..4u8 {
                for require in [false, true] {
                    v.push(Cfg { cap, client: Some((rkreq, require, 2, true)), ctap_rk: None, prf: false, cap_after_prompt: Some(new_cap), wrap: 0, uv_cap: 0, contended: false, prior: None, user_len: 0, rk_json: 0, named_rp: 0 });
                }
            }
        }
    }
    v
}

pub fn run(ctx: &mut Ctx) {
    ctx.rule = "complete product: store capability (3) x residentKey (absent, discouraged, preferred, required) x requireResidentKey (2) x credProps request (absent, false, true) x PRF requested on a PRF-capable authenticator (2) through Client::register followed by three authentications under userVerification preferred / discouraged / required (counters on, so the record is rewritten in between), plus authenticatorSelection absent (3x3), plus the capability changing to each other value while the user is asked (credProps requested; only credProps-versus-stored and the assertion rules are judged), plus the store handed over inside each of the four lock wrappers (through the Arc wrappers also while another task holds the lock until the ceremony cannot proceed), a final assertion whose allow list names the new credential and a sibling, the judged registration preceded by an earlier resident registration under another capability, plus authenticators whose user verification is present-but-unconfigured or absent (ceremonies then run with userVerification discouraged), plus capability x CTAP rk (2) through make_credential / get_assertion. Every configuration is distinct and non-trivial. Since rounds 7/8: user ids of 1..64 bytes, options through JSON with an unknown residentKey string, relying parties named in the library's sources, credProps also read from the serialised credential.".into();
    ctx.exhaustive = Some(true);
    ctx.assumptions = vec!["the capability is set through the reference store's get_info; user validation always consents".into()];
    let all = all_configs();
    ctx.note("configurations", json!(all.len()));
    for c in &all {
        ctx.sample(if c.client.is_some() { "client" } else { "ctap" }, || json!(c));
        if let Err(e) = check(ctx, c) {
            ctx.violation("product", json!(c), &e);
        }
    }
}

pub fn replay(ctx: &mut Ctx, _stage: &str, case: &Value) -> Result<(), String> {
    let c: Cfg = serde_json::from_value(case.clone()).map_err(|e| format!("bad case: {e}"))?;
    check(ctx, &c)
}
