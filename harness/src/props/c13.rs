//! C13 — CTAP2 messages use the specified integer keys and round-trip through CBOR.

use std::collections::HashMap;
use std::num::NonZeroU128;
use std::panic::{catch_unwind, AssertUnwindSafe};

use ciborium::value::Value as Cbor;
use passkey_client::{Client, DefaultClientData, WebauthnError};
use passkey_types::ctap2::extensions::{AuthenticatorPrfGetOutputs, AuthenticatorPrfInputs, AuthenticatorPrfMakeOutputs, AuthenticatorPrfValues, HmacGetSecretInput};
use passkey_types::ctap2::{get_assertion, get_info, make_credential, Aaguid, AuthenticatorData, Flags, StatusCode};
use passkey_types::webauthn::{AuthenticatorTransport, PublicKeyCredentialDescriptor, PublicKeyCredentialParameters, PublicKeyCredentialType, PublicKeyCredentialUserEntity};
use proptest::prelude::*;
use serde::de::DeserializeOwned;
use serde::Serialize;
use serde_json::{json, Value};

use crate::cer::{self, AuthCfg};
use crate::ceremony::SITES;
use crate::core::{search, Ctx, Search};
use crate::model::rpid::{HProvider, ProviderKind};
use crate::model::util::make_passkey;
use crate::rt::{block_on, Disc, RefStore, ScriptedUv, UvScript};

// ------------------------------------------------------------------ generic CBOR helpers

pub fn to_cbor<T: Serialize>(t: &T) -> Result<Vec<u8>, String> {
    let mut v = vec![];
    catch_unwind(AssertUnwindSafe(|| ciborium::ser::into_writer(t, &mut v))).map_err(|_| format!("serialisation panicked: {}", crate::last_panic()))?.map_err(|e| format!("serialisation failed: {e}"))?;
    Ok(v)
}

pub fn from_cbor<T: DeserializeOwned>(b: &[u8]) -> Result<T, String> {
    catch_unwind(AssertUnwindSafe(|| ciborium::de::from_reader::<T, _>(b))).map_err(|_| format!("deserialisation panicked: {}", crate::last_panic()))?.map_err(|e| format!("{e}"))
}

fn value_of<T: Serialize>(t: &T) -> Cbor {
    norm(&Cbor::serialized(t).expect("value serialisation"))
}

/// order-insensitive normal form of a CBOR value (map entries sorted by their encoded key)
pub fn norm(v: &Cbor) -> Cbor {
    match v {
        Cbor::Array(a) => Cbor::Array(a.iter().map(norm).collect()),
        Cbor::Map(m) => {
            let mut e: Vec<(Vec<u8>, Cbor, Cbor)> = m
                .iter()
                .map(|(k, v)| {
                    let mut kb = vec![];
                    ciborium::ser::into_writer(k, &mut kb).unwrap();
                    (kb, norm(k), norm(v))
                })
                .collect();
            e.sort_by(|a, b| a.0.cmp(&b.0));
            Cbor::Map(e.into_iter().map(|(_, k, v)| (k, v)).collect())
        }
        Cbor::Tag(t, inner) => Cbor::Tag(*t, Box::new(norm(inner))),
        other => other.clone(),
    }
}

fn key_of(k: &Cbor) -> Option<i128> {
    k.as_integer().map(i128::from)
}

/// A CTAP2 message type with the key table the CTAP specification assigns to its members.
pub trait Msg: Serialize + DeserializeOwned + std::fmt::Debug {
    const NAME: &'static str;
    /// (spec key, required, encoding of the member if present)
    fn members(&self) -> Vec<(u8, bool, Option<Cbor>)>;
    /// options member key, for request types
    const OPTIONS_KEY: Option<u8> = None;
    fn options(&self) -> Option<(bool, bool, bool)> {
        None
    }
}

impl Msg for make_credential::Request {
    const NAME: &'static str = "makeCredential request";
    const OPTIONS_KEY: Option<u8> = Some(0x07);
    fn members(&self) -> Vec<(u8, bool, Option<Cbor>)> {
        vec![
            (0x01, true, Some(value_of(&self.client_data_hash))),
            (0x02, true, Some(value_of(&self.rp))),
            (0x03, true, Some(value_of(&self.user))),
            (0x04, true, Some(value_of(&self.pub_key_cred_params))),
            (0x05, false, self.exclude_list.as_ref().map(value_of)),
            (0x06, false, self.extensions.as_ref().map(value_of)),
            (0x07, false, Some(value_of(&self.options))),
            (0x08, false, self.pin_auth.as_ref().map(value_of)),
            (0x09, false, self.pin_protocol.as_ref().map(value_of)),
        ]
    }
    fn options(&self) -> Option<(bool, bool, bool)> {
        Some((self.options.rk, self.options.up, self.options.uv))
    }
}

impl Msg for make_credential::Response {
    const NAME: &'static str = "makeCredential response";
    fn members(&self) -> Vec<(u8, bool, Option<Cbor>)> {
        vec![
            (0x01, true, Some(value_of(&self.fmt))),
            (0x02, true, Some(value_of(&self.auth_data))),
            (0x03, true, Some(value_of(&self.att_stmt))),
            (0x04, false, self.ep_att.as_ref().map(value_of)),
            (0x05, false, self.large_blob_key.as_ref().map(value_of)),
            (0x06, false, self.unsigned_extension_outputs.as_ref().map(value_of)),
        ]
    }
}

impl Msg for get_assertion::Request {
    const NAME: &'static str = "getAssertion request";
    const OPTIONS_KEY: Option<u8> = Some(0x05);
    fn members(&self) -> Vec<(u8, bool, Option<Cbor>)> {
        vec![
            (0x01, true, Some(value_of(&self.rp_id))),
            (0x02, true, Some(value_of(&self.client_data_hash))),
            (0x03, false, self.allow_list.as_ref().map(value_of)),
            (0x04, false, self.extensions.as_ref().map(value_of)),
            (0x05, false, Some(value_of(&self.options))),
            (0x06, false, self.pin_auth.as_ref().map(value_of)),
            (0x07, false, self.pin_protocol.as_ref().map(value_of)),
        ]
    }
    fn options(&self) -> Option<(bool, bool, bool)> {
        Some((self.options.rk, self.options.up, self.options.uv))
    }
}

impl Msg for get_assertion::Response {
    const NAME: &'static str = "getAssertion response";
    fn members(&self) -> Vec<(u8, bool, Option<Cbor>)> {
        vec![
            (0x01, false, self.credential.as_ref().map(value_of)),
            (0x02, true, Some(value_of(&self.auth_data))),
            (0x03, true, Some(value_of(&self.signature))),
            (0x04, false, self.user.as_ref().map(value_of)),
            (0x05, false, self.number_of_credentials.as_ref().map(value_of)),
            (0x06, false, self.user_selected.as_ref().map(value_of)),
            (0x07, false, self.large_blob_key.as_ref().map(value_of)),
            (0x08, false, self.unsigned_extension_outputs.as_ref().map(value_of)),
        ]
    }
}

impl Msg for get_info::Response {
    const NAME: &'static str = "getInfo response";
    fn members(&self) -> Vec<(u8, bool, Option<Cbor>)> {
        vec![
            (0x01, true, Some(value_of(&self.versions))),
            (0x02, false, self.extensions.as_ref().map(value_of)),
            (0x03, true, Some(value_of(&self.aaguid))),
            (0x04, false, self.options.as_ref().map(value_of)),
            (0x05, false, self.max_msg_size.as_ref().map(value_of)),
            (0x06, false, self.pin_protocols.as_ref().map(value_of)),
            (0x09, false, self.transports.as_ref().map(value_of)),
        ]
    }
}

impl Msg for HmacGetSecretInput {
    const NAME: &'static str = "hmac-secret input";
    fn members(&self) -> Vec<(u8, bool, Option<Cbor>)> {
        vec![(0x01, true, Some(value_of(&self.key_agreement))), (0x02, true, Some(value_of(&self.salt_enc))), (0x03, true, Some(value_of(&self.salt_auth))), (0x04, false, self.pin_uv_auth_protocol.as_ref().map(value_of))]
    }
}

/// injected unknown entries: (integer key or text key index, value selector)
#[derive(Clone, Debug)]
pub struct Inject {
    pub ints: Vec<(u8, u8)>,
    pub texts: Vec<(u8, u8)>,
    pub at: u8,
}

fn junk(sel: u8) -> Cbor {
    match sel % 6 {
        0 => Cbor::Null,
        1 => Cbor::Integer(42.into()),
        2 => Cbor::Text("ignored".into()),
        3 => Cbor::Bytes(vec![1, 2, 3]),
        4 => Cbor::Array(vec![Cbor::Bool(true), Cbor::Map(vec![(Cbor::Text("k".into()), Cbor::Integer(1.into()))])]),
        _ => Cbor::Map(vec![(Cbor::Integer(1.into()), Cbor::Bytes(vec![0; 40]))]),
    }
}

pub fn check_msg<T: Msg>(ctx: &mut Ctx, x: &T, inj: &Inject) -> Result<(), String> {
    ctx.eval();
    let name = T::NAME;
    let bytes = to_cbor(x)?;
    let v: Cbor = from_cbor(&bytes).map_err(|e| format!("{name}: the serialisation is not CBOR: {e}"))?;
    let map = v.as_map().ok_or_else(|| format!("{name}: does not serialise to a CBOR map"))?;
    let members = x.members();
    // ---- keys: exactly the spec integers of the present members, ascending
    let got_keys: Vec<i128> = map.iter().map(|(k, _)| key_of(k).ok_or_else(|| format!("{name}: top-level key {k:?} is not an integer"))).collect::<Result<_, _>>()?;
    let want_keys: Vec<i128> = members.iter().filter(|m| m.2.is_some()).map(|m| m.0 as i128).collect();
    if got_keys != want_keys {
        return Err(format!("{name}: top-level keys {got_keys:?}, the specification gives {want_keys:?} for the members present (ascending, absent optional members omitted)"));
    }
    // ---- each key carries the member the specification assigns to it
    for (k, _, enc) in &members {
        if let Some(enc) = enc {
            let got = map.iter().find(|(kk, _)| key_of(kk) == Some(*k as i128)).map(|(_, v)| norm(v)).unwrap();
            if &got != enc {
                return Err(format!("{name}: the value under key 0x{k:02X} is not the encoding of the member the specification assigns to that key: {got:?} vs {enc:?}").chars().take(500).collect());
            }
        }
    }
    // ---- round trip
    let y: T = from_cbor(&bytes).map_err(|e| format!("{name}: its own serialisation does not deserialise: {e}"))?;
    let again = norm(&from_cbor::<Cbor>(&to_cbor(&y)?)?);
    if again != norm(&v) {
        return Err(format!("{name}: deserialising the serialisation does not yield an equal message: {:?} vs {:?}", again, norm(&v)).chars().take(700).collect());
    }
    // ---- unknown keys are ignored
    let known: Vec<u8> = members.iter().map(|m| m.0).collect();
    let mut with_unknown = map.clone();
    let mut injected = 0;
    for (k, sel) in &inj.ints {
        if !known.contains(k) && !with_unknown.iter().any(|(kk, _)| key_of(kk) == Some(*k as i128)) {
            let pos = (inj.at as usize + injected) % (with_unknown.len() + 1);
            with_unknown.insert(pos, (Cbor::Integer((*k).into()), junk(*sel)));
            injected += 1;
        }
    }
    for (t, sel) in &inj.texts {
        // unknown text keys: free-form ones and ones that look like numbers (they are still text keys)
        const NUMERIC: [&str; 10] = ["1", "2", "3", "4", "5", "7", "9", "0", "255", "01"];
        let key = if t % 3 == 0 { NUMERIC[(*t as usize / 3) % NUMERIC.len()].to_string() } else { format!("x-unknown-{t}") };
        if !with_unknown.iter().any(|(kk, _)| kk.as_text() == Some(key.as_str())) {
            let pos = (inj.at as usize * 7 + injected) % (with_unknown.len() + 1);
            with_unknown.insert(pos, (Cbor::Text(key), junk(*sel)));
            injected += 1;
        }
    }
    if injected > 0 {
        let b = to_cbor(&Cbor::Map(with_unknown))?;
        let z: T = from_cbor(&b).map_err(|e| format!("{name}: {injected} injected unknown keys made the parse fail: {e}"))?;
        if norm(&from_cbor::<Cbor>(&to_cbor(&z)?)?) != norm(&v) {
            return Err(format!("{name}: injected unknown keys changed the parsed message"));
        }
        ctx.class("with-injected-unknown-keys");
    }
    // ---- duplicated member => error
    for (k, val) in map.iter() {
        let mut dup = map.clone();
        dup.push((k.clone(), val.clone()));
        if from_cbor::<T>(&to_cbor(&Cbor::Map(dup))?).is_ok() {
            return Err(format!("{name}: a duplicated member (key {:?}) was accepted", key_of(k)));
        }
        ctx.eval();
        // the same key twice with a null in first, second or both places is still a duplicated member
        let pos = map.iter().position(|(kk, _)| kk == k).unwrap_or(0);
        for (first, second) in [(Cbor::Null, val.clone()), (val.clone(), Cbor::Null), (Cbor::Null, Cbor::Null)] {
            let mut dup = map.clone();
            dup[pos] = (k.clone(), first);
            dup.insert(pos + 1, (k.clone(), second));
            if from_cbor::<T>(&to_cbor(&Cbor::Map(dup))?).is_ok() {
                return Err(format!("{name}: a member (key {:?}) occurring twice, once or twice as null, was accepted", key_of(k)));
            }
            ctx.eval();
        }
    }
    // ---- missing required member => error
    for (k, required, _) in &members {
        if *required {
            let less: Vec<(Cbor, Cbor)> = map.iter().filter(|(kk, _)| key_of(kk) != Some(*k as i128)).cloned().collect();
            if from_cbor::<T>(&to_cbor(&Cbor::Map(less))?).is_ok() {
                return Err(format!("{name}: a message without the required member 0x{k:02X} was accepted"));
            }
            ctx.eval();
        }
    }
    // ---- defaults of the options member
    if let Some(ok) = T::OPTIONS_KEY {
        let without: Vec<(Cbor, Cbor)> = map.iter().filter(|(kk, _)| key_of(kk) != Some(ok as i128)).cloned().collect();
        let z: T = from_cbor(&to_cbor(&Cbor::Map(without.clone()))?).map_err(|e| format!("{name}: a message without the optional options member was rejected: {e}"))?;
        if z.options() != Some((false, true, false)) {
            return Err(format!("{name}: absent options default to (rk, up, uv) = {:?}, the specification says (false, true, false)", z.options()));
        }
        for mask in 0..8u8 {
            let vals = ((inj.at & 1 != 0), (inj.at & 2 != 0), (inj.at & 4 != 0));
            let mut om = vec![];
            if mask & 1 != 0 {
                om.push((Cbor::Text("rk".into()), Cbor::Bool(vals.0)));
            }
            if mask & 2 != 0 {
                om.push((Cbor::Text("up".into()), Cbor::Bool(vals.1)));
            }
            if mask & 4 != 0 {
                om.push((Cbor::Text("uv".into()), Cbor::Bool(vals.2)));
            }
            // now and then the options map also carries a text key this library does not know (an option of a later
            // protocol revision): it is ignored like any other unknown text key
            let extra = (inj.at as usize + mask as usize) % 3 == 0;
            if extra {
                let key = ["plat", "clientPin", "someFutureOption", "RK", "u"][(inj.at as usize / 3 + mask as usize) % 5];
                om.insert((inj.at as usize) % (om.len() + 1), (Cbor::Text(key.into()), if inj.at & 8 != 0 { Cbor::Bool(true) } else { Cbor::Integer(1.into()) }));
                ctx.class("options-map-with-an-unknown-text-key");
            }
            let mut m2 = without.clone();
            m2.push((Cbor::Integer(ok.into()), Cbor::Map(om)));
            let z: T = from_cbor(&to_cbor(&Cbor::Map(m2))?).map_err(|e| format!("{name}: a partial options map{} was rejected: {e}", if extra { " that also carries an unknown text key" } else { "" }))?;
            let want = (if mask & 1 != 0 { vals.0 } else { false }, if mask & 2 != 0 { vals.1 } else { true }, if mask & 4 != 0 { vals.2 } else { false });
            if z.options() != Some(want) {
                return Err(format!("{name}: options map with members mask {mask:03b} parsed to (rk, up, uv) = {:?}, expected {want:?} (absent members default to rk=false, up=true, uv=false)", z.options()));
            }
            ctx.eval();
        }
    }
    let optional_present = members.iter().filter(|m| !m.1 && m.2.is_some()).count();
    if optional_present >= 1 || injected >= 1 {
        ctx.nontrivial(&(name, &bytes, injected));
    }
    ctx.class(name);
    ctx.sample(name, || json!({"type": name, "cbor_hex": crate::core::hex(&bytes[..bytes.len().min(160)]), "keys": got_keys.iter().map(|k| *k as i64).collect::<Vec<_>>()}));
    Ok(())
}

// ------------------------------------------------------------------ strategies

fn bytes(max: usize) -> impl Strategy<Value = passkey_types::Bytes> {
    // mostly short; now and then just around the 4096-byte scratch buffer of the CBOR reader
    prop_oneof![
        40 => proptest::collection::vec(any::<u8>(), 0..=max).prop_map(Into::into),
        1 => (prop_oneof![Just(4095usize), Just(4096), Just(4097), 4098usize..6000], any::<u8>()).prop_map(|(n, fill)| (0..n).map(|i| fill.wrapping_add((i % 253) as u8)).collect::<Vec<u8>>().into()),
    ]
}

fn text() -> impl Strategy<Value = String> {
    prop_oneof![3 => "[a-z0-9.-]{0,16}", 1 => "\\PC{0,8}"]
}

fn transports() -> impl Strategy<Value = Option<Vec<AuthenticatorTransport>>> {
    proptest::option::of(proptest::collection::vec(prop_oneof![Just(AuthenticatorTransport::Usb), Just(AuthenticatorTransport::Nfc), Just(AuthenticatorTransport::Ble), Just(AuthenticatorTransport::Hybrid), Just(AuthenticatorTransport::Internal)], 0..4))
}

fn descriptor() -> impl Strategy<Value = PublicKeyCredentialDescriptor> {
    (proptest::bool::weighted(0.9), bytes(40), transports()).prop_map(|(k, id, transports)| PublicKeyCredentialDescriptor { ty: if k { PublicKeyCredentialType::PublicKey } else { PublicKeyCredentialType::Unknown }, id, transports })
}

fn prf_values() -> impl Strategy<Value = AuthenticatorPrfValues> {
    (any::<[u8; 32]>(), proptest::option::of(any::<[u8; 32]>())).prop_map(|(first, second)| AuthenticatorPrfValues { first, second })
}

fn prf_inputs() -> impl Strategy<Value = AuthenticatorPrfInputs> {
    (proptest::option::of(prf_values()), proptest::option::of(proptest::collection::vec((bytes(20), prf_values()), 0..4))).prop_map(|(eval, by)| AuthenticatorPrfInputs { eval, eval_by_credential: by.map(|v| v.into_iter().collect::<HashMap<_, _>>()) })
}

fn hmac_input() -> impl Strategy<Value = HmacGetSecretInput> {
    (bytes(32), bytes(64), bytes(32), proptest::option::of(any::<u8>())).prop_map(|(x, salt_enc, salt_auth, p)| HmacGetSecretInput {
        key_agreement: Cbor::Map(vec![(Cbor::Integer(1.into()), Cbor::Integer(2.into())), (Cbor::Integer(3.into()), Cbor::Integer((-25).into())), (Cbor::Integer((-1).into()), Cbor::Integer(1.into())), (Cbor::Integer((-2).into()), Cbor::Bytes(x.to_vec()))]),
        salt_enc,
        salt_auth,
        pin_uv_auth_protocol: p,
    })
}

fn options() -> impl Strategy<Value = make_credential::Options> {
    (any::<bool>(), any::<bool>(), any::<bool>()).prop_map(|(rk, up, uv)| make_credential::Options { rk, up, uv })
}

fn params() -> impl Strategy<Value = Vec<PublicKeyCredentialParameters>> {
    proptest::collection::vec(prop_oneof![Just(-7i64), Just(-257), Just(-8), Just(-35), Just(-36), Just(-37), Just(-65535), Just(1), Just(3)], 0..5).prop_map(|a| cer::params(&a))
}

fn mc_request() -> impl Strategy<Value = make_credential::Request> {
    (
        (bytes(40), text(), proptest::option::of(text()), bytes(64), text(), text()),
        (params(), proptest::option::of(proptest::collection::vec(descriptor(), 0..4))),
        proptest::option::of((proptest::option::of(any::<bool>()), proptest::option::of(hmac_input()), proptest::option::of(prf_inputs()))),
        (options(), proptest::option::of(bytes(32)), proptest::option::of(any::<u8>())),
    )
        .prop_map(|((cdh, rp_id, rp_name, uid, uname, udisp), (pk, ex), ext, (options, pin_auth, pin_protocol))| make_credential::Request {
            client_data_hash: cdh,
            rp: make_credential::PublicKeyCredentialRpEntity { id: rp_id, name: rp_name },
            user: PublicKeyCredentialUserEntity { id: uid, display_name: udisp, name: uname },
            pub_key_cred_params: pk,
            exclude_list: ex,
            extensions: ext.map(|(hmac_secret, hmac_secret_mc, prf)| make_credential::ExtensionInputs { hmac_secret, hmac_secret_mc, prf }),
            options,
            pin_auth,
            pin_protocol,
        })
}

fn auth_data() -> impl Strategy<Value = AuthenticatorData> {
    (text(), proptest::option::of(any::<u32>()), any::<u8>(), proptest::option::of((any::<[u8; 16]>(), proptest::collection::vec(any::<u8>(), 0..70))), proptest::option::of(any::<bool>())).prop_map(|(rp, counter, flags, att, ext)| {
        let mut ad = AuthenticatorData::new(&rp, counter).set_flags(Flags::from_bits_truncate(flags & 0x05));
        if let Some((aaguid, id)) = att {
            let key = coset::CoseKeyBuilder::new_ec2_pub_key(coset::iana::EllipticCurve::P_256, vec![1; 32], vec![2; 32]).algorithm(coset::iana::Algorithm::ES256).build();
            ad = ad.set_attested_credential_data(passkey_types::ctap2::AttestedCredentialData::new(Aaguid::from(aaguid), id, key).unwrap());
        }
        if let Some(b) = ext {
            ad = ad.set_make_credential_extensions(Some(make_credential::SignedExtensionOutputs { hmac_secret: Some(b), hmac_secret_mc: None })).unwrap();
        }
        ad
    })
}

fn att_stmt() -> impl Strategy<Value = Cbor> {
    prop_oneof![8 => Just(Cbor::Map(vec![])), 1 => Just(Cbor::Null), 1 => Just(Cbor::Array(vec![])), 8 => bytes(70).prop_map(|s| Cbor::Map(vec![(Cbor::Text("alg".into()), Cbor::Integer((-7).into())), (Cbor::Text("sig".into()), Cbor::Bytes(s.to_vec()))]))]
}

fn mc_response() -> impl Strategy<Value = make_credential::Response> {
    (text(), auth_data(), att_stmt(), proptest::option::of(any::<bool>()), proptest::option::of(bytes(32)), proptest::option::of(proptest::option::of((any::<bool>(), proptest::option::of(prf_values()))))).prop_map(|(fmt, auth_data, att_stmt, ep_att, large_blob_key, ueo)| make_credential::Response {
        fmt,
        auth_data,
        att_stmt,
        ep_att,
        large_blob_key,
        unsigned_extension_outputs: ueo.map(|p| make_credential::UnsignedExtensionOutputs { prf: p.map(|(enabled, results)| AuthenticatorPrfMakeOutputs { enabled, results }) }),
    })
}

fn ga_request() -> impl Strategy<Value = get_assertion::Request> {
    (text(), bytes(40), proptest::option::of(proptest::collection::vec(descriptor(), 0..4)), proptest::option::of((proptest::option::of(hmac_input()), proptest::option::of(prf_inputs()))), options(), proptest::option::of(bytes(32)), proptest::option::of(any::<u8>())).prop_map(
        |(rp_id, client_data_hash, allow_list, ext, options, pin_auth, pin_protocol)| get_assertion::Request { rp_id, client_data_hash, allow_list, extensions: ext.map(|(hmac_secret, prf)| get_assertion::ExtensionInputs { hmac_secret, prf }), options, pin_auth, pin_protocol },
    )
}

fn ga_response() -> impl Strategy<Value = get_assertion::Response> {
    (
        proptest::option::of(descriptor()),
        auth_data(),
        bytes(72),
        proptest::option::of((bytes(64), text(), text())),
        proptest::option::of(any::<u8>()),
        proptest::option::of(any::<bool>()),
        proptest::option::of(bytes(32)),
        proptest::option::of(proptest::option::of(prf_values())),
    )
        .prop_map(|(credential, auth_data, signature, user, number_of_credentials, user_selected, large_blob_key, ueo)| get_assertion::Response {
            credential,
            auth_data,
            signature,
            user: user.map(|(id, name, display_name)| PublicKeyCredentialUserEntity { id, name, display_name }),
            number_of_credentials,
            user_selected,
            large_blob_key,
            unsigned_extension_outputs: ueo.map(|p| get_assertion::UnsignedExtensionOutputs { prf: p.map(|results| AuthenticatorPrfGetOutputs { results }) }),
        })
}

fn gi_response() -> impl Strategy<Value = get_info::Response> {
    // unknown identifiers are mostly fresh strings, sometimes a known one in another letter case (still unknown: the
    // identifiers are case-sensitive strings)
    let version = (0u8..3, prop_oneof![6 => "FIDO_2_[1-9]|x[a-z]{1,6}", 1 => Just("fido_2_0".to_string()), 1 => Just("u2f_v2".to_string()), 1 => Just("Fido_2_0".to_string())]).prop_map(|(k, s)| match k {
        0 => get_info::Version::U2F_V2,
        1 => get_info::Version::FIDO_2_0,
        _ => get_info::Version::Unknown(s),
    });
    let ext = (0u8..4, prop_oneof![6 => "cred[A-Z][a-z]{1,8}", 1 => Just("PRF".to_string()), 1 => Just("Hmac-Secret".to_string()), 1 => Just("HMAC-SECRET-MC".to_string())]).prop_map(|(k, s)| match k {
        0 => get_info::Extension::HmacSecret,
        1 => get_info::Extension::HmacSecretMakeCredential,
        2 => get_info::Extension::Prf,
        _ => get_info::Extension::Unknown(s),
    });
    let opts = (any::<bool>(), any::<bool>(), proptest::option::of(any::<bool>()), any::<bool>(), proptest::option::of(any::<bool>())).prop_map(|(plat, rk, client_pin, up, uv)| get_info::Options { plat, rk, client_pin, up, uv });
    let size = proptest::option::of(prop_oneof![Just(1u128), Just(1200), Just(u64::MAX as u128), Just(u64::MAX as u128 + 1), Just(u128::MAX), any::<u128>()].prop_map(|v| NonZeroU128::new(v.max(1)).unwrap()));
    (proptest::collection::vec(version, 0..4), proptest::option::of(proptest::collection::vec(ext, 0..4)), any::<[u8; 16]>(), proptest::option::of(opts), size, proptest::option::of(proptest::collection::vec(any::<u8>(), 0..3)), transports())
        .prop_map(|(versions, extensions, aaguid, options, max_msg_size, pin_protocols, transports)| get_info::Response { versions, extensions, aaguid: Aaguid::from(aaguid), options, max_msg_size, pin_protocols, transports })
}

fn inject() -> impl Strategy<Value = Inject> {
    (proptest::collection::vec((any::<u8>(), any::<u8>()), 0..4), proptest::collection::vec((any::<u8>(), any::<u8>()), 0..3), any::<u8>()).prop_map(|(ints, texts, at)| Inject { ints, texts, at })
}

// ------------------------------------------------------------------ status bytes

fn check_status_bytes(ctx: &mut Ctx) -> Result<(), String> {
    let mut seen = std::collections::HashSet::new();
    for b in 0..=255u8 {
        ctx.eval();
        ctx.nontrivial(&("status", b));
        let s = catch_unwind(|| StatusCode::from(b)).map_err(|_| format!("StatusCode::from(0x{b:02X}) panicked"))?;
        let dbg = format!("{s:?}");
        if !seen.insert(dbg.clone()) {
            return Err(format!("status byte 0x{b:02X} converts to a value another byte already produced ({dbg})"));
        }
        let back: u8 = s.into();
        if back != b {
            return Err(format!("status byte 0x{b:02X} converts to {dbg} and back to 0x{back:02X}"));
        }
        let w = WebauthnError::from(StatusCode::from(b));
        let want = if b == 0x2E { WebauthnError::CredentialNotFound } else { WebauthnError::AuthenticatorError(b) };
        if w != want {
            return Err(format!("status byte 0x{b:02X} maps to {w:?} at the client, expected {want:?}"));
        }
        // end to end: the store fails the lookup with this byte during an authentication
        let store = RefStore::with(Disc::Full, vec![make_passkey(1, SITES[0].effective, b"c13-cred-0000001", Some(b"u"), None, None)]);
        store.set_faults(std::collections::BTreeMap::from([(0usize, b)]));
        let auth = cer::build_authenticator(store, ScriptedUv::new(UvScript::verified()), &AuthCfg::default());
        let mut client = Client::new_with_custom_tld_provider(auth, HProvider::new(ProviderKind::Default));
        let r = catch_unwind(AssertUnwindSafe(|| block_on(client.authenticate(SITES[0].origin(), cer::request_options(SITES[0].rp, b"c", None, cer::uv_req(1), None), DefaultClientData)))).map_err(|_| format!("authenticate panicked for status 0x{b:02X}"))?;
        match r {
            Err(e) if e == want => {}
            other => return Err(format!("an authentication during which the authenticator reports status 0x{b:02X} returned {:?}, expected {want:?}", other.map(|_| "Ok"))),
        }
    }
    ctx.class_n("status-bytes", 256);
    Ok(())
}

pub fn run(ctx: &mut Ctx) {
    let fs = ctx.first_shard();
    ctx.rule = "well-formed values of the six CTAP2 message types (makeCredential / getAssertion requests and responses, getInfo response, hmac-secret input) with every optional member present or absent, nested descriptors, extension inputs/outputs (hash maps with several entries); injected unknown integer keys 0..=255 outside the type's table and unknown text keys; every member duplicated; every required member removed; options member absent and all 8 partial option maps; all 256 status bytes (conversion both ways, client mapping, and end-to-end through Client::authenticate). Since round 7 a third of the partial option maps also carry an unknown text key. Non-trivial = message with at least one optional member present or one injected key, or a status byte; distinct by encoding.".into();
    ctx.assumptions = vec![
        "key tables are transcribed from the CTAP 2.1/2.2 specification in the harness".into(),
        "nested member encodings are compared with the serde encoding of that member taken alone (the statement constrains the top-level keys); equality of messages is equality of their order-normalised CBOR values".into(),
        "Unknown(s) version/extension strings never equal a known name; injected text keys never equal a member name".into(),
    ];
    let n = ctx.tier.pick(6_000u32, 1_000_000u32);
    macro_rules! stage {
        ($salt:expr, $name:expr, $strat:expr) => {
            match search(ctx, $salt, n, ($strat, inject()), |ctx, (x, inj)| check_msg(ctx, x, inj)) {
                Search::Pass => {}
                Search::Fail((x, _), e) => {
                    let hexs = to_cbor(&x).map(|b| crate::core::hex(&b)).unwrap_or_default();
                    ctx.violation($name, json!({"type": $name, "cbor_hex": hexs}), &e)
                }
            }
        };
    }
    stage!(131, "mc-request", mc_request());
    stage!(132, "mc-response", mc_response());
    stage!(133, "ga-request", ga_request());
    stage!(134, "ga-response", ga_response());
    stage!(135, "gi-response", gi_response());
    stage!(136, "hmac-input", hmac_input());
    // every integer key 0..=255 outside the type's table, one at a time, on a fixed value of each type
    macro_rules! all_keys {
        ($name:expr, $strat:expr) => {{
            let x = crate::core::nth_value(crate::core::h64(&($name, ctx.seed)), &$strat);
            for k in (0..=255u8).filter(|_| fs) {
                let inj = Inject { ints: vec![(k, k)], texts: vec![], at: k };
                if let Err(e) = check_msg(ctx, &x, &inj) {
                    let hexs = to_cbor(&x).map(|b| crate::core::hex(&b)).unwrap_or_default();
                    ctx.violation($name, json!({"type": $name, "cbor_hex": hexs}), &format!("{e} [with injected unknown key {k}]"));
                    break;
                }
            }
        }};
    }
    all_keys!("mc-request", mc_request());
    all_keys!("mc-response", mc_response());
    all_keys!("ga-request", ga_request());
    all_keys!("ga-response", ga_response());
    all_keys!("gi-response", gi_response());
    all_keys!("hmac-input", hmac_input());
    ctx.note("every_unknown_integer_key_0_255_injected_once_per_type", json!(true));
    if !ctx.first_shard() {
        return;
    }
    if let Err(e) = check_status_bytes(ctx) {
        ctx.violation("status", json!({"type": "status"}), &e);
    }
}

pub fn replay(ctx: &mut Ctx, stage: &str, case: &Value) -> Result<(), String> {
    if stage == "status" {
        return check_status_bytes(ctx);
    }
    let hexs = case.get("cbor_hex").and_then(|v| v.as_str()).ok_or("bad case")?;
    let b = crate::core::unhex(hexs);
    let inj = Inject { ints: vec![(0x40, 1), (0xFF, 3), (0x0A, 5)], texts: vec![(1, 2)], at: 5 };
    // the case is the message as the library encoded it when the failure was found; a tree whose library
    // cannot decode it (e.g. the failure was a renumbered member) cannot replay it
    fn dec<T: serde::de::DeserializeOwned>(b: &[u8]) -> Result<T, String> {
        from_cbor::<T>(b).map_err(|e| format!("NOT-APPLICABLE: the recorded encoding does not decode with this tree's library ({e})"))
    }
    match stage {
        "mc-request" => check_msg(ctx, &dec::<make_credential::Request>(&b)?, &inj),
        "mc-response" => check_msg(ctx, &dec::<make_credential::Response>(&b)?, &inj),
        "ga-request" => check_msg(ctx, &dec::<get_assertion::Request>(&b)?, &inj),
        "ga-response" => check_msg(ctx, &dec::<get_assertion::Response>(&b)?, &inj),
        "gi-response" => check_msg(ctx, &dec::<get_info::Response>(&b)?, &inj),
        "hmac-input" => check_msg(ctx, &dec::<HmacGetSecretInput>(&b)?, &inj),
        other => Err(format!("unknown stage {other}")),
    }
}

// ------------------------------------------------------------------ valid encodings for the hostile-input engine (C15)

pub fn mc_request_bytes() -> impl Strategy<Value = Vec<u8>> {
    mc_request().prop_map(|x| to_cbor(&x).unwrap_or_default())
}
pub fn mc_response_bytes() -> impl Strategy<Value = Vec<u8>> {
    mc_response().prop_map(|x| to_cbor(&x).unwrap_or_default())
}
pub fn ga_request_bytes() -> impl Strategy<Value = Vec<u8>> {
    ga_request().prop_map(|x| to_cbor(&x).unwrap_or_default())
}
pub fn ga_response_bytes() -> impl Strategy<Value = Vec<u8>> {
    ga_response().prop_map(|x| to_cbor(&x).unwrap_or_default())
}
pub fn gi_response_bytes() -> impl Strategy<Value = Vec<u8>> {
    gi_response().prop_map(|x| to_cbor(&x).unwrap_or_default())
}
pub fn hmac_input_bytes() -> impl Strategy<Value = Vec<u8>> {
    hmac_input().prop_map(|x| to_cbor(&x).unwrap_or_default())
}
