//! C16 — CTAPHID fragmentation and reassembly preserve every message, per channel.

use std::panic::{catch_unwind, AssertUnwindSafe};

use passkey_transports::hid::{ChannelHandler, Command, Message};
use proptest::prelude::*;
use serde::{Deserialize, Serialize};
use serde_json::{json, Value};

use crate::core::{search, Ctx, Search};

const COMMANDS: [(Command, u8); 9] = [
    (Command::Msg, 0x03),
    (Command::Cbor, 0x10),
    (Command::Init, 0x06),
    (Command::Ping, 0x01),
    (Command::Cancel, 0x11),
    (Command::Err, 0x3F),
    (Command::KeepAlive, 0x3B),
    (Command::Wink, 0x08),
    (Command::Lock, 0x04),
];
const MAX_PAYLOAD: usize = 7609;

#[derive(Clone, Debug, Serialize, Deserialize, PartialEq, Eq, Hash)]
pub struct Msg {
    pub channel: u32,
    /// index into COMMANDS
    pub cmd: usize,
    pub len: usize,
    /// content generator seed
    pub fill: u8,
    /// four-byte values written over the payload: (offset, value, big-endian) -- e.g. another channel's id
    #[serde(default)]
    pub embed: Vec<(u16, u32, bool)>,
}

fn payload(m: &Msg) -> Vec<u8> {
    let mut p = payload_base(m);
    for (off, val, be) in &m.embed {
        let off = *off as usize;
        if off + 4 <= p.len() {
            p[off..off + 4].copy_from_slice(&if *be { val.to_be_bytes() } else { val.to_ne_bytes() });
        }
    }
    p
}

fn payload_base(m: &Msg) -> Vec<u8> {
    // payloads of one or two bytes carry the fill byte itself (so every one-byte payload value can be addressed)
    if m.len <= 2 {
        return [m.fill, m.fill ^ 0x55][..m.len].to_vec();
    }
    let mut x = m.fill as u32 ^ 0x9E37;
    (0..m.len)
        .map(|i| {
            if m.fill == 0 {
                0
            } else if m.fill == 255 {
                0xFF
            } else {
                x = x.wrapping_mul(1664525).wrapping_add(1013904223).wrapping_add(i as u32);
                (x >> 16) as u8
            }
        })
        .collect()
}

struct Recorder(Vec<Vec<u8>>);
impl std::io::Write for Recorder {
    fn write(&mut self, buf: &[u8]) -> std::io::Result<usize> {
        self.0.push(buf.to_vec());
        Ok(buf.len())
    }
    fn flush(&mut self) -> std::io::Result<()> {
        Ok(())
    }
}

/// Ok(None) = refused by the sender; Ok(Some(packets)) = what the sender wrote
pub fn send(m: &Msg) -> Result<Option<Vec<Vec<u8>>>, String> {
    let data = payload(m);
    let msg = match catch_unwind(AssertUnwindSafe(|| Message::new(m.channel, COMMANDS[m.cmd].0, &data))).map_err(|_| format!("Message::new panicked: {}", crate::last_panic()))? {
        Ok(msg) => msg,
        Err(_) => return Ok(None),
    };
    let mut rec = Recorder(vec![]);
    catch_unwind(AssertUnwindSafe(|| msg.send(&mut rec))).map_err(|_| format!("Message::send panicked on a {}-byte payload: {}", m.len, crate::last_panic()))?.map_err(|e| format!("send failed: {e}"))?;
    Ok(Some(rec.0))
}

/// independent parse of the sender's packets
pub fn check_packets(m: &Msg, packets: &[Vec<u8>]) -> Result<(), String> {
    let data = payload(m);
    if m.len > MAX_PAYLOAD {
        return Err(format!("a payload of {} bytes (above the protocol maximum of {MAX_PAYLOAD}) was accepted by the sender", m.len));
    }
    let expected_packets = if m.len <= 57 { 1 } else { 1 + (m.len - 57).div_ceil(59) };
    if packets.len() != expected_packets {
        return Err(format!("{} packets written for a {}-byte payload, expected {expected_packets}", packets.len(), m.len));
    }
    let mut cid: Option<[u8; 4]> = None;
    let mut collected = vec![];
    for (i, p) in packets.iter().enumerate() {
        if p.len() != 64 {
            return Err(format!("packet {i} has {} bytes, not 64", p.len()));
        }
        let c: [u8; 4] = p[..4].try_into().unwrap();
        if c != m.channel.to_be_bytes() && c != m.channel.to_le_bytes() {
            return Err(format!("packet {i} carries channel bytes {c:02X?}, message channel is 0x{:08X}", m.channel));
        }
        if *cid.get_or_insert(c) != c {
            return Err(format!("packet {i} encodes the channel differently from packet 0"));
        }
        if i == 0 {
            if p[4] != COMMANDS[m.cmd].1 | 0x80 {
                return Err(format!("initialization packet command byte 0x{:02X}, expected 0x{:02X}", p[4], COMMANDS[m.cmd].1 | 0x80));
            }
            let l = u16::from_be_bytes([p[5], p[6]]) as usize;
            if l != m.len {
                return Err(format!("initialization packet announces {l} bytes (big endian), payload has {}", m.len));
            }
            let take = m.len.min(57);
            collected.extend_from_slice(&p[7..7 + take]);
            if p[7 + take..].iter().any(|b| *b != 0) {
                return Err("initialization packet is not zero padded".into());
            }
        } else {
            if p[4] != (i - 1) as u8 {
                return Err(format!("continuation packet {i} has sequence byte 0x{:02X}, expected 0x{:02X}", p[4], i - 1));
            }
            if p[4] & 0x80 != 0 {
                return Err(format!("continuation packet {i} has bit 7 set in its sequence byte"));
            }
            let remaining = m.len - collected.len();
            let take = remaining.min(59);
            collected.extend_from_slice(&p[5..5 + take]);
            if p[5 + take..].iter().any(|b| *b != 0) {
                return Err(format!("continuation packet {i} is not zero padded"));
            }
        }
    }
    if collected != data {
        return Err("the concatenated packet data differs from the payload".into());
    }
    Ok(())
}

fn same(m: &Msg, got: &Message) -> Result<(), String> {
    if got.channel != m.channel {
        return Err(format!("delivered channel 0x{:08X}, sent 0x{:08X}", got.channel, m.channel));
    }
    if got.command.encode() != COMMANDS[m.cmd].1 | 0x80 {
        return Err(format!("delivered command {:?}, sent {:?}", got.command, COMMANDS[m.cmd].0));
    }
    if got.payload != payload(m) {
        return Err(format!("delivered payload ({} bytes) differs from the one sent ({} bytes)", got.payload.len(), m.len));
    }
    Ok(())
}

/// single message: send, parse, feed to a fresh receiver
pub fn check_message(ctx: &mut Ctx, m: &Msg) -> Result<(), String> {
    ctx.eval();
    let Some(packets) = send(m)? else {
        ctx.class("refused");
        if m.len > MAX_PAYLOAD {
            ctx.nontrivial(m);
        } else {
            ctx.measure("refused_within_protocol_maximum(measured)", 1);
        }
        return Ok(());
    };
    check_packets(m, &packets)?;
    let mut h = ChannelHandler::default();
    for (i, p) in packets.iter().enumerate() {
        let r = catch_unwind(AssertUnwindSafe(|| h.handle_packet(p))).map_err(|_| format!("handle_packet panicked: {}", crate::last_panic()))?;
        if i + 1 < packets.len() {
            if r.is_some() {
                return Err(format!("a message was delivered on packet {i} of {}", packets.len()));
            }
        } else {
            let got = r.ok_or_else(|| format!("no message delivered on the last packet ({} packets, {} bytes)", packets.len(), m.len))?;
            same(m, &got)?;
            // the message as delivered is a message like any other: sent on (an echo, a relay) it is written as the same
            // packets and arrives again
            let mut rec = Recorder(vec![]);
            catch_unwind(AssertUnwindSafe(|| got.send(&mut rec))).map_err(|_| format!("sending a delivered message on panicked: {}", crate::last_panic()))?.map_err(|e| format!("sending a delivered message on failed: {e}"))?;
            check_packets(m, &rec.0).map_err(|e| format!("a delivered message sent on again: {e}"))?;
            let mut h3 = ChannelHandler::default();
            let mut echoed = None;
            for p in &rec.0 {
                echoed = h3.handle_packet(p);
            }
            same(m, &echoed.ok_or("a delivered message sent on again is not delivered by the next receiver")?).map_err(|e| format!("a delivered message sent on again: {e}"))?;
        }
    }
    // orphan continuation on a fresh receiver
    if packets.len() > 1 {
        let mut h2 = ChannelHandler::default();
        if h2.handle_packet(&packets[1]).is_some() {
            return Err("a continuation packet without a message in progress produced a message".into());
        }
        ctx.nontrivial(m);
    }
    ctx.class(if packets.len() > 1 { "multi-packet" } else { "single-packet" });
    ctx.sample(if packets.len() > 1 { "multi" } else { "single" }, || json!(m));
    Ok(())
}

#[derive(Clone, Debug, Serialize, Deserialize, PartialEq, Eq, Hash)]
pub struct Merge {
    pub msgs: Vec<Msg>,
    /// order of channel indices, one entry per packet
    pub order: Vec<usize>,
    /// transmissions that were given up earlier: (channel index, payload length, fill, number of packets that arrived);
    /// the receiver still holds them when the messages proper start on the same channels
    #[serde(default)]
    pub abandoned: Vec<(usize, usize, u8, usize)>,
    /// stray continuation packets of channels on which nothing is in progress: (position in the order, sequence number);
    /// they yield nothing and disturb nobody
    #[serde(default)]
    pub strays: Vec<(usize, u8)>,
    /// this many other channels have each started a fragmented message earlier and never finished it
    #[serde(default)]
    pub abandoned_elsewhere: usize,
}

pub fn check_merge(ctx: &mut Ctx, mg: &Merge) -> Result<(), String> {
    ctx.eval();
    let mut streams = vec![];
    for m in &mg.msgs {
        match send(m)? {
            Some(p) => streams.push(p),
            None => return Ok(()),
        }
    }
    let mut pos = vec![0usize; streams.len()];
    let mut h = ChannelHandler::default();
    let mut delivered = vec![0usize; streams.len()];
    // abandoned transmissions first: some of their packets arrive, never the last one
    for (ch, len, fill, k) in &mg.abandoned {
        let Some(m) = mg.msgs.get(*ch % mg.msgs.len().max(1)) else { continue };
        let other = Msg { channel: m.channel, cmd: (m.cmd + 1) % 9, len: (*len).min(MAX_PAYLOAD), fill: *fill, embed: vec![] };
        if let Some(p) = send(&other)? {
            if p.len() < 2 {
                continue;
            }
            for packet in p.iter().take((*k).clamp(1, p.len() - 1)) {
                if catch_unwind(AssertUnwindSafe(|| h.handle_packet(packet))).map_err(|_| format!("handle_packet panicked: {}", crate::last_panic()))?.is_some() {
                    return Err("a message was delivered although its last packet never arrived".into());
                }
            }
            ctx.class("merge/after an abandoned transmission on the same channel");
        }
    }
    // unfinished transmissions on channels none of the messages uses
    for k in 0..mg.abandoned_elsewhere {
        let channel = (0u32..).map(|j| 0x7A00_0000u32.wrapping_add((k as u32) << 8).wrapping_add(j)).find(|c| mg.msgs.iter().all(|m| m.channel != *c)).unwrap();
        let other = Msg { channel, cmd: k % 9, len: 100 + k % 50, fill: k as u8 | 1, embed: vec![] };
        if let Some(p) = send(&other)? {
            if catch_unwind(AssertUnwindSafe(|| h.handle_packet(&p[0]))).map_err(|_| format!("handle_packet panicked: {}", crate::last_panic()))?.is_some() {
                return Err("a message was delivered although its last packet never arrived".into());
            }
        }
    }
    if mg.abandoned_elsewhere > 0 {
        ctx.class(&format!("merge/while {} other channels hold unfinished transmissions", if mg.abandoned_elsewhere >= 16 { "16 or more" } else { "up to 15" }));
    }
    if mg.msgs.iter().any(|m| !m.embed.is_empty()) {
        ctx.class("merge/a payload carries another channel's id");
    }
    // a channel id none of the messages uses
    let idle_channel = (0u32..).map(|k| 0x5151_0000u32.wrapping_add(k)).find(|c| mg.msgs.iter().all(|m| m.channel != *c)).unwrap();
    for (step, &ch) in mg.order.iter().enumerate() {
        for (at, seq) in &mg.strays {
            if *at == step {
                let mut p = vec![0u8; 64];
                p[..4].copy_from_slice(&idle_channel.to_ne_bytes());
                p[4] = seq & 0x7f;
                p[5..].iter_mut().for_each(|b| *b = 0x5A);
                if catch_unwind(AssertUnwindSafe(|| h.handle_packet(&p))).map_err(|_| format!("handle_packet panicked: {}", crate::last_panic()))?.is_some() {
                    return Err(format!("step {step}: a continuation packet for a channel with no message in progress yielded a message"));
                }
                ctx.class("merge/with stray continuation packets of an idle channel");
            }
        }
        if ch >= streams.len() || pos[ch] >= streams[ch].len() {
            continue;
        }
        let p = &streams[ch][pos[ch]];
        pos[ch] += 1;
        let r = catch_unwind(AssertUnwindSafe(|| h.handle_packet(p))).map_err(|_| format!("handle_packet panicked: {}", crate::last_panic()))?;
        let last = pos[ch] == streams[ch].len();
        match r {
            Some(got) => {
                if !last {
                    return Err(format!("step {step}: a message was delivered before channel #{ch}'s last packet"));
                }
                same(&mg.msgs[ch], &got).map_err(|e| format!("step {step}, channel #{ch}: {e}"))?;
                delivered[ch] += 1;
            }
            None => {
                if last {
                    return Err(format!("step {step}: channel #{ch}'s last packet delivered nothing (interleaving {:?})", mg.order));
                }
            }
        }
    }
    // flush whatever the order left over, channel by channel
    for ch in 0..streams.len() {
        while pos[ch] < streams[ch].len() {
            let p = &streams[ch][pos[ch]];
            pos[ch] += 1;
            if let Some(got) = h.handle_packet(p) {
                same(&mg.msgs[ch], &got)?;
                delivered[ch] += 1;
            }
        }
        if delivered[ch] != 1 {
            return Err(format!("channel #{ch}'s message was delivered {} times (interleaving {:?})", delivered[ch], mg.order));
        }
    }
    if mg.msgs.len() >= 2 {
        ctx.nontrivial(mg);
    }
    ctx.class(&format!("merge/{}-channels", mg.msgs.len()));
    Ok(())
}

/// all order-preserving merges of streams with the given packet counts
fn all_merges(counts: &[usize]) -> Vec<Vec<usize>> {
    fn rec(left: &mut Vec<usize>, cur: &mut Vec<usize>, out: &mut Vec<Vec<usize>>) {
        if left.iter().all(|c| *c == 0) {
            out.push(cur.clone());
            return;
        }
        for i in 0..left.len() {
            if left[i] > 0 {
                left[i] -= 1;
                cur.push(i);
                rec(left, cur, out);
                cur.pop();
                left[i] += 1;
            }
        }
    }
    let mut out = vec![];
    rec(&mut counts.to_vec(), &mut vec![], &mut out);
    out
}

fn msg() -> impl Strategy<Value = Msg> {
    let ch = prop_oneof![Just(0u32), Just(0xFFFF_FFFF), Just(1), Just(0x0102_0304), any::<u32>()];
    let len = prop_oneof![
        4 => 0usize..=130,
        3 => (0usize..=128, 0usize..3).prop_map(|(k, d)| (57 + 59 * k + d).saturating_sub(1)),
        2 => 7550usize..=7700,
        1 => prop_oneof![Just(65535usize), Just(65536), Just(7609), Just(7610), Just(7608)],
        2 => 0usize..=8000,
    ];
    (ch, 0usize..9, len, any::<u8>()).prop_map(|(channel, cmd, len, fill)| Msg { channel, cmd, len, fill, embed: vec![] })
}

/// a writer that fails its k-th write with the given error kind (and records what it accepted)
struct FaultyWriter {
    accepted: Vec<Vec<u8>>,
    calls: usize,
    fail_at: usize,
    kind: std::io::ErrorKind,
}
impl std::io::Write for FaultyWriter {
    fn write(&mut self, buf: &[u8]) -> std::io::Result<usize> {
        let n = self.calls;
        self.calls += 1;
        if n == self.fail_at {
            return Err(std::io::Error::new(self.kind, "injected"));
        }
        self.accepted.push(buf.to_vec());
        Ok(buf.len())
    }
    fn flush(&mut self) -> std::io::Result<()> {
        Ok(())
    }
}

/// the transport fails one write call: the sender may report the failure, but when it reports success the transport must
/// have been handed the complete packet stream ("written as one initialisation packet followed by ...")
pub fn check_write_fault(ctx: &mut Ctx, c: &(Msg, usize, u8)) -> Result<(), String> {
    use std::io::ErrorKind as K;
    let (m, at, kind) = c;
    ctx.eval();
    let Some(full) = send(m)? else { return Ok(()) };
    let kind = [K::Interrupted, K::WouldBlock, K::BrokenPipe, K::TimedOut, K::WriteZero, K::Other, K::UnexpectedEof, K::ConnectionReset][*kind as usize % 8];
    let data = payload(m);
    let Ok(msg) = Message::new(m.channel, COMMANDS[m.cmd].0, &data) else { return Ok(()) };
    let mut w = FaultyWriter { accepted: vec![], calls: 0, fail_at: at % full.len(), kind };
    let r = catch_unwind(AssertUnwindSafe(|| msg.send(&mut w))).map_err(|_| format!("Message::send panicked when a write failed: {}", crate::last_panic()))?;
    ctx.nontrivial(c);
    match r {
        Err(_) => {
            ctx.class("write-fault/reported");
            Ok(())
        }
        Ok(()) => {
            ctx.class("write-fault/success reported");
            if w.accepted != full {
                return Err(format!("write call #{} of {} failed with {kind:?}; the sender reported success although the transport accepted {} of the {} packets of the message", at % full.len(), full.len(), w.accepted.len(), full.len()));
            }
            Ok(())
        }
    }
}

/// a fragmented message whose sender pauses (real time) between its packets while another channel transmits: reassembly
/// does not depend on when packets arrive
fn slow_sender(pause_ms: u64) -> Result<(), String> {
    let a = Msg { channel: 0x0A0A_0A0A, cmd: 1, len: 150, fill: 5, embed: vec![] };
    let b = Msg { channel: 0x0B0B_0B0B, cmd: 3, len: 20, fill: 6, embed: vec![] };
    let (pa, pb) = (send(&a)?.ok_or("refused")?, send(&b)?.ok_or("refused")?);
    let mut h = ChannelHandler::default();
    if h.handle_packet(&pa[0]).is_some() {
        return Err("a message was delivered on its first packet".into());
    }
    match h.handle_packet(&pb[0]) {
        Some(got) => same(&b, &got)?,
        None => return Err("a single-packet message was not delivered".into()),
    }
    std::thread::sleep(std::time::Duration::from_millis(pause_ms));
    if h.handle_packet(&pa[1]).is_some() {
        return Err("a message was delivered before its last packet".into());
    }
    std::thread::sleep(std::time::Duration::from_millis(pause_ms / 8));
    match h.handle_packet(&pa[2]) {
        Some(got) => same(&a, &got).map_err(|e| format!("after a pause of {pause_ms} ms between the packets of a message: {e}")),
        None => Err(format!("a fragmented message whose packets arrived with a pause of {pause_ms} ms between them was never delivered")),
    }
}

pub fn run(ctx: &mut Ctx) {
    let fs = ctx.first_shard();
    // (runs beside the other stages; joined at the end)
    let pause = ctx.tier.pick(3_600u64, 12_000u64);
    let slow = fs.then(|| std::thread::spawn(move || slow_sender(pause)));
    ctx.rule = "messages over channel ids (0, broadcast, random), all nine commands, payload lengths (every value 0..=7700, 65535/65536/70000, random) with zero / 0xFF / pseudo-random contents: sender output parsed by an independent packet parser and fed to a fresh receiver; the delivered message is sent on again and must arrive at the next receiver unchanged. Sequences of 1-6 transmissions through one receiver (a third of them repeat the transmission before), and every command with every one-byte payload value followed by transmissions on other channels. Interleavings of 2-4 channels: ALL order-preserving merges when the streams have at most 9 packets in total, generated merges otherwise (uniformly mixed ones with up to 26 packets per channel, and skewed ones in which one channel pauses inside its message while others send whole messages of up to 129 packets and a further channel starts only afterwards; a third of the generated merges run on a receiver that still holds given-up transmissions on the same channels, half of them see stray continuation packets of an idle channel). Since rounds 7/8: payloads carrying another channel's id (every command x offset x byte order), merges starting while up to 1000 other channels hold unfinished transmissions, a transport failing one write call, one transmission with a real pause between packets. Non-trivial = message with at least one continuation packet, a refused over-long payload, or a merge of at least two channels; distinct by message / by (messages, order).".into();
    ctx.assumptions = vec![
        "the channel id byte order is accepted as either endianness but must be the same in all packets and round-trip".into(),
        "only messages the sender accepts are constrained; refusals at or below 7609 bytes are measured (Message::new refuses exactly 7609)".into(),
    ];
    // ---- complete length sweeps
    let thorough = ctx.tier == crate::core::Tier::Thorough;
    let mut lens: Vec<usize> = (0..=130).collect();
    for k in 0..=129usize {
        for d in 0..3 {
            lens.push((57 + 59 * k + d).saturating_sub(1));
        }
    }
    lens.extend(7550..=7700);
    lens.extend([65535usize, 65536, 70000]);
    lens.extend(0..=7700);
    lens.sort();
    lens.dedup();
    'sweep: for (i, len) in lens.iter().enumerate().filter(|_| fs) {
        for fill in if thorough { vec![0u8, 255, 7] } else { vec![(i % 254) as u8 + 1] } {
            let m = Msg { channel: [0x0102_0304u32, 0, 0xFFFF_FFFF, 0xA1B2_C3D4][i % 4], cmd: i % 9, len: *len, fill, embed: vec![] };
            if let Err(e) = check_message(ctx, &m) {
                ctx.violation("lengths", json!(m), &e);
                break 'sweep;
            }
        }
    }
    ctx.note("length_sweep_values", json!(lens.len()));
    // ---- generated messages
    let n = ctx.tier.pick(20_000u32, 4_000_000u32);
    match search(ctx, 16, n, msg(), check_message) {
        Search::Pass => {}
        Search::Fail(m, e) => ctx.violation("messages", json!(m), &e),
    }
    // ---- exhaustive merges of short streams
    let mut enumerated = 0u64;
    let shapes: Vec<Vec<usize>> = vec![vec![1, 1], vec![2, 1], vec![2, 2], vec![3, 2], vec![3, 3], vec![4, 3], vec![1, 1, 1], vec![2, 2, 1], vec![2, 2, 2], vec![3, 2, 2], vec![3, 3, 2], vec![2, 2, 2, 2], vec![3, 2, 2, 1], vec![4, 4], vec![5, 3]];
    'merges: for (si, shape) in shapes.iter().enumerate().filter(|_| fs) {
        if shape.iter().sum::<usize>() > ctx.tier.pick(9, 10) {
            continue;
        }
        // commands rotate so that every command (incl. INIT) appears on some channel of some shape
        for rot in 0..ctx.tier.pick(9usize, 9usize) {
            let msgs: Vec<Msg> = shape.iter().enumerate().map(|(i, packets)| Msg { channel: [7u32, 0xFFFF_FFFF, 0, 0x0A0B_0C0D][i], cmd: (i * 2 + rot + si) % 9, len: if *packets == 1 { 8 + i } else { 57 + 59 * (packets - 2) + 1 + i }, fill: (i + 1) as u8, embed: vec![] }).collect();
            for order in all_merges(shape) {
                enumerated += 1;
                let mg = Merge { msgs: msgs.clone(), order, abandoned: vec![], strays: vec![], abandoned_elsewhere: 0 };
                if let Err(e) = check_merge(ctx, &mg) {
                    ctx.violation("merges-exhaustive", json!(mg), &e);
                    break 'merges;
                }
            }
        }
    }
    ctx.note("merges_enumerated_exhaustively", json!(enumerated));
    // ---- generated merges of longer streams
    let strat = (proptest::collection::vec(msg(), 2..5), proptest::collection::vec(0usize..4, 0..400)).prop_map(|(mut msgs, order)| {
        // distinct channels, moderate lengths
        for (i, m) in msgs.iter_mut().enumerate() {
            m.channel = m.channel.wrapping_mul(4).wrapping_add(i as u32);
            m.len %= 1500;
        }
        Merge { msgs, order, abandoned: vec![], strays: vec![], abandoned_elsewhere: 0 }
    });
    // a third of the generated merges start on a receiver that still holds given-up transmissions of the same channels
    let strat = (strat, proptest::collection::vec((0usize..4, prop_oneof![58usize..400, 400usize..7609], any::<u8>(), 1usize..6), 0..3), 0u8..3).prop_map(|(mut mg, abandoned, sel)| {
        if sel == 0 {
            mg.abandoned = abandoned;
        }
        mg
    });
    // half of them see a few stray continuation packets of an idle channel on the way (sequence numbers 0..3 mostly)
    let strat = (strat, proptest::collection::vec((0usize..60, prop_oneof![4 => 0u8..4, 1 => any::<u8>()]), 0..4), any::<bool>()).prop_map(|(mut mg, strays, on)| {
        if on {
            mg.strays = strays;
        }
        mg
    });
    // a third carry another channel's id somewhere in a payload; a quarter start while other channels hold unfinished transmissions
    let strat = (strat, any::<u16>(), any::<u8>(), 0usize..48).prop_map(|(mut mg, off, sel, others)| {
        let n = mg.msgs.len();
        if sel % 3 == 0 {
            for i in 0..n {
                let named = mg.msgs[(i + 1) % n].channel;
                mg.msgs[i].embed = vec![((off >> (i * 2)) % 24, named, sel & 8 != 0)];
            }
        }
        if sel % 4 == 1 {
            mg.abandoned_elsewhere = others;
        }
        mg
    });
    let n = ctx.tier.pick(15_000u32, 4_000_000u32);
    match search(ctx, 26, n, strat, check_merge) {
        Search::Pass => {}
        Search::Fail(m, e) => ctx.violation("merges", json!(m), &e),
    }
    // ---- every command x a complete single-packet message that carries the id of a channel with a message in progress at
    // every offset (both byte orders), and fragmented messages that start while n other channels hold unfinished transmissions
    if fs && ctx.violations.is_empty() {
        'named: for cmd in 0..9usize {
            for off in 0..=20u16 {
                for be in [false, true] {
                    for (len, waiting) in [(17usize, 0x0A0B_0C0Du32), (57, 0x0000_0001), (24, 0xFFFF_FFFE)] {
                        let msgs = vec![Msg { channel: waiting, cmd: (cmd + 1) % 9, len: 150, fill: 9, embed: vec![] }, Msg { channel: if off % 2 == 0 { 0xFFFF_FFFF } else { 0x0000_0007 }, cmd, len, fill: 3, embed: vec![(off, waiting, be)] }];
                        let mg = Merge { msgs, order: vec![0, 0, 1, 0], abandoned: vec![], strays: vec![], abandoned_elsewhere: 0 };
                        if let Err(e) = check_merge(ctx, &mg) {
                            ctx.violation("merges", json!(mg), &e);
                            break 'named;
                        }
                    }
                }
            }
        }
        for others in [1usize, 15, 16, 17, 31, 32, 33, 64, 255, 256, 1000] {
            let msgs = vec![Msg { channel: 0x0102_0304, cmd: 1, len: 150, fill: 9, embed: vec![] }, Msg { channel: 5, cmd: 3, len: 60, fill: 4, embed: vec![] }];
            let mg = Merge { msgs, order: vec![0, 1, 0, 1, 0], abandoned: vec![], strays: vec![], abandoned_elsewhere: others };
            if let Err(e) = check_merge(ctx, &mg) {
                ctx.violation("merges", json!(mg), &e);
                break;
            }
        }
    }
    // ---- sequences through one receiver; a transmission repeats the one before it in a third of the positions
    let seq = proptest::collection::vec((msg(), 0u8..3), 1..7).prop_map(|v| {
        let mut out: Vec<Msg> = vec![];
        for (mut m, rep) in v {
            m.len %= 400;
            if rep == 0 && !out.is_empty() {
                let prev = out[out.len() - 1].clone();
                out.push(prev);
            } else {
                out.push(m);
            }
        }
        out
    });
    let n = ctx.tier.pick(4_000u32, 1_000_000u32);
    match search(ctx, 28, n, seq, check_sequence) {
        Search::Pass => {}
        Search::Fail(m, e) => ctx.violation("sequences", json!(m), &e),
    }
    // ---- every command with every one-byte payload value, followed by transmissions on two other channels through the same
    // receiver: no message's command or content may change what happens to the messages of other channels
    if fs {
        'sweep: for cmd in 0..9usize {
            for b in 0..=255u8 {
                let seq = vec![
                    Msg { channel: 0x0101_0101, cmd, len: 1, fill: b, embed: vec![] },
                    Msg { channel: 0x0202_0202, cmd: (cmd + 3) % 9, len: 70 + (b as usize % 60), fill: b.wrapping_add(1) | 1, embed: vec![] },
                    Msg { channel: 0x0303_0303, cmd: (cmd + 5) % 9, len: 1 + (b as usize % 2), fill: b, embed: vec![] },
                    Msg { channel: 0x0101_0101, cmd: (cmd + 1) % 9, len: 9, fill: 7, embed: vec![] },
                ];
                if let Err(e) = check_sequence(ctx, &seq) {
                    ctx.violation("sequences", json!(seq), &e);
                    break 'sweep;
                }
            }
        }
    }
    // ---- skewed interleavings: one channel pauses in the middle of its message while the others transmit long runs
    // (whole maximum-size messages), and another channel only starts once the pause has lasted
    let packets_of = |len: usize| if len <= 57 { 1 } else { 1 + (len - 57).div_ceil(59) };
    let big = prop_oneof![3 => 7400usize..=7608, 1 => 3000usize..7400];
    let frag = prop_oneof![2 => 58usize..400, 1 => 400usize..7608];
    let skew = (proptest::collection::vec((any::<u32>(), 0usize..9, any::<u8>()), 4), frag.clone(), big, prop_oneof![1 => 0usize..58, 2 => frag.clone()], frag, 1usize..6, any::<bool>(), proptest::collection::vec(0usize..4, 0..40)).prop_map(
        move |(ids, paused_len, big_len, small_len, late_len, before, three, tail)| {
            let lens = [paused_len, big_len, small_len, late_len];
            let mut msgs: Vec<Msg> = ids.iter().enumerate().map(|(i, (ch, cmd, fill))| Msg { channel: ch.wrapping_mul(4).wrapping_add(i as u32), cmd: *cmd, len: lens[i], fill: *fill, embed: vec![] }).collect();
            // channel 0 pauses after `before` packets; 1 (and 2) run to completion meanwhile; 3 starts late
            let mut order = vec![0usize; before.min(packets_of(paused_len) - 1)];
            order.extend(std::iter::repeat(1).take(packets_of(big_len)));
            if three {
                // three channels only: the late one takes the small one's place
                msgs.remove(2);
                order.extend(std::iter::repeat(2).take(1));
                order.extend(std::iter::repeat(0).take(packets_of(paused_len)));
            } else {
                order.extend(std::iter::repeat(2).take(packets_of(small_len)));
                order.extend(std::iter::repeat(3).take(1));
                order.extend(std::iter::repeat(0).take(packets_of(paused_len)));
            }
            order.extend(tail);
            Merge { msgs, order, abandoned: vec![], strays: vec![], abandoned_elsewhere: 0 }
        },
    );
    let n = ctx.tier.pick(400u32, 60_000u32);
    match search(ctx, 27, n, skew, |ctx, mg| {
        ctx.class("merge/skewed (a channel pauses while others send >= 50 packets)");
        check_merge(ctx, mg)
    }) {
        Search::Pass => {}
        Search::Fail(m, e) => ctx.violation("merges-skewed", json!(m), &e),
    }
    // ---- the transport fails one write
    let wf = (msg(), any::<usize>(), any::<u8>()).prop_map(|(mut m, at, kind)| {
        m.len %= 1200;
        (m, at, kind)
    });
    let n = ctx.tier.pick(3_000u32, 300_000u32);
    match search(ctx, 29, n, wf, check_write_fault) {
        Search::Pass => {}
        Search::Fail(c, e) => ctx.violation("write-fault", json!(c), &e),
    }
    if let Some(t) = slow {
        ctx.eval();
        ctx.class("slow sender (real pause between the packets of a message)");
        match t.join() {
            Ok(Ok(())) => {}
            Ok(Err(e)) => ctx.violation("slow-sender", json!(pause), &e),
            Err(_) => ctx.violation("slow-sender", json!(pause), "the receiver panicked"),
        }
    }
}

/// several transmissions one after the other through the same receiver (same or different channels, now and then the
/// very same message again): each is delivered exactly once, on its last packet, unchanged
pub fn check_sequence(ctx: &mut Ctx, msgs: &Vec<Msg>) -> Result<(), String> {
    ctx.eval();
    let mut h = ChannelHandler::default();
    for (k, m) in msgs.iter().enumerate() {
        let Some(packets) = send(m)? else { continue };
        let mut delivered = 0;
        for (i, p) in packets.iter().enumerate() {
            match catch_unwind(AssertUnwindSafe(|| h.handle_packet(p))).map_err(|_| format!("handle_packet panicked: {}", crate::last_panic()))? {
                Some(got) => {
                    if i + 1 != packets.len() {
                        return Err(format!("transmission #{k}: a message was delivered before the last packet"));
                    }
                    same(m, &got).map_err(|e| format!("transmission #{k}: {e}"))?;
                    delivered += 1;
                }
                None if i + 1 == packets.len() => return Err(format!("transmission #{k} ({} packets, {} bytes, the same message as the one before: {}): nothing was delivered on its last packet", packets.len(), m.len, k > 0 && msgs[k - 1] == *m)),
                None => {}
            }
        }
        if delivered != 1 {
            return Err(format!("transmission #{k} was delivered {delivered} times"));
        }
    }
    if msgs.len() >= 2 {
        ctx.nontrivial(msgs);
    }
    ctx.class("sequence of transmissions through one receiver");
    Ok(())
}

pub fn replay(ctx: &mut Ctx, stage: &str, case: &Value) -> Result<(), String> {
    if stage == "sequences" {
        let m: Vec<Msg> = serde_json::from_value(case.clone()).map_err(|e| format!("bad case: {e}"))?;
        return check_sequence(ctx, &m);
    }
    if stage == "write-fault" {
        let c: (Msg, usize, u8) = serde_json::from_value(case.clone()).map_err(|e| format!("bad case: {e}"))?;
        return check_write_fault(ctx, &c);
    }
    if stage == "slow-sender" {
        let pause: u64 = serde_json::from_value(case.clone()).map_err(|e| format!("bad case: {e}"))?;
        ctx.eval();
        return slow_sender(pause);
    }
    if stage.starts_with("merges") {
        let m: Merge = serde_json::from_value(case.clone()).map_err(|e| format!("bad case: {e}"))?;
        check_merge(ctx, &m)
    } else {
        let m: Msg = serde_json::from_value(case.clone()).map_err(|e| format!("bad case: {e}"))?;
        check_message(ctx, &m)
    }
}

/// packet streams ([len u8][packet bytes]...) of 1-3 interleaved messages, for the hostile-input engine (C15)
pub fn stream_bytes() -> impl Strategy<Value = Vec<u8>> {
    (proptest::collection::vec(msg(), 1..4), proptest::collection::vec(0usize..3, 0..40)).prop_map(|(mut msgs, order)| {
        let mut streams = vec![];
        for (i, m) in msgs.iter_mut().enumerate() {
            m.len %= 400;
            m.channel = m.channel.wrapping_mul(4).wrapping_add(i as u32);
            streams.push(send(m).ok().flatten().unwrap_or_default());
        }
        let mut pos = vec![0usize; streams.len()];
        let mut out = vec![];
        let mut push = |p: &Vec<u8>| {
            out.push(p.len().min(255) as u8);
            out.extend_from_slice(&p[..p.len().min(255)]);
        };
        for ch in order {
            let ch = ch % streams.len();
            if pos[ch] < streams[ch].len() {
                push(&streams[ch][pos[ch]]);
                pos[ch] += 1;
            }
        }
        for ch in 0..streams.len() {
            while pos[ch] < streams[ch].len() {
                push(&streams[ch][pos[ch]]);
                pos[ch] += 1;
            }
        }
        out
    })
}
