//! C17 — U2F registration and authentication messages are well-formed and verifiable.

use std::panic::{catch_unwind, AssertUnwindSafe};

use passkey_authenticator::{Authenticator, CredentialStore, MemoryStore, U2fApi};
use passkey_types::ctap2::Flags;
use passkey_types::u2f::{AuthenticationParameter, AuthenticationRequest, RegisterRequest, Request, RequestPayload, Version};
use passkey_types::Passkey;
use proptest::prelude::*;
use serde::{Deserialize, Serialize};
use serde_json::{json, Value};

use crate::cer::{self, AuthCfg};
use crate::core::{idx, search, Ctx, Search};
use crate::model::util::{b64url, public_from_scalar, snap, verify_any, verify_der};
use crate::rt::{block_on, Disc, RefStore, ScriptedUv, UvScript};

#[derive(Clone, Debug, Serialize, Deserialize, PartialEq, Eq, Hash)]
pub enum Step {
    Register {
        challenge: [u8; 32],
        app: u8,
        handle: Vec<u8>,
        /// register a key handle that was registered before (the k-th) instead of `handle`
        #[serde(default)]
        reuse: Option<u16>,
        /// reference store only: the n-th store call of this registration fails with this status byte
        #[serde(default)]
        fault: Option<(u8, u8)>,
    },
    /// authenticate with the k-th registered handle (or an unknown one), counter, presence flag bits, P1 index
    Authenticate { challenge: [u8; 32], known: Option<u16>, unknown: Vec<u8>, wrong_app: bool, counter: u32, flags: u8, p1: u8 },
}

#[derive(Clone, Debug, Serialize, Deserialize, PartialEq, Eq, Hash)]
pub struct History {
    /// 0 MemoryStore, 1 reference store, 2 Option slot
    pub store: u8,
    pub steps: Vec<Step>,
    /// the authenticator's user-validation method cannot test presence (U2F callers pass the presence flags themselves)
    #[serde(default)]
    pub no_presence_capability: bool,
    /// application parameters of registrations are 32 copies of the step's `app` byte (values such as the ones browsers use
    /// for placeholder requests) instead of one of three hashes
    #[serde(default)]
    pub const_apps: bool,
    /// reference store only: the store does not persist signature counters (records come back with counter None)
    #[serde(default)]
    pub no_counters_in_store: bool,
}

fn app(i: u8) -> [u8; 32] {
    crate::model::util::sha256(&[b"app", &[i % 3][..]].concat())
}

fn single_slot_evicted(_single: bool) -> bool {
    false
}

struct Reg {
    app: [u8; 32],
    handle: Vec<u8>,
    x: [u8; 32],
    y: [u8; 32],
}

fn run_history<S: CredentialStore<PasskeyItem = Passkey> + Sync + Send>(ctx: &mut Ctx, store: S, single_slot: bool, h: &History, ref_handle: Option<RefStore>) -> Result<(), String> {
    let uv = ScriptedUv::new(UvScript { presence_enabled: !h.no_presence_capability, ..UvScript::verified() });
    let mut auth: Authenticator<S, ScriptedUv> = cer::build_authenticator(store, uv, &AuthCfg::default());
    let mut regs: Vec<Reg> = vec![];
    let mut ever: Vec<Vec<u8>> = vec![];
    let mut did_auth_after_reg = false;
    for (i, step) in h.steps.iter().enumerate() {
        ctx.eval();
        match step {
            Step::Register { challenge, app: a, handle, reuse, fault } => {
                let application = if h.const_apps { [*a; 32] } else { app(*a) };
                let reused = reuse.filter(|_| !ever.is_empty()).map(|k| ever[idx(k, ever.len())].clone());
                if reused.is_some() {
                    ctx.class("register/key handle registered before");
                }
                let handle = reused.as_ref().unwrap_or(handle);
                let faulted = match (&ref_handle, fault) {
                    (Some(r), Some((n, code))) => {
                        r.set_faults([((*n % 3) as usize, *code)].into_iter().collect());
                        true
                    }
                    _ => false,
                };
                let res = catch_unwind(AssertUnwindSafe(|| block_on(U2fApi::register(&mut auth, RegisterRequest { challenge: *challenge, application }, handle)))).map_err(|_| format!("step {i}: register panicked: {}", crate::last_panic()))?;
                if let Some(r) = &ref_handle {
                    r.set_faults(Default::default());
                }
                let resp = match res {
                    Ok(r) => r,
                    Err(_) if faulted => {
                        // the store refused: nothing is promised about this key handle any more than before
                        ctx.class("register/refused while a store call failed");
                        continue;
                    }
                    Err(e) => return Err(format!("step {i}: registration with a {}-byte key handle failed with {e:?} on an infallible store", handle.len())),
                };
                ctx.class(if faulted { "register/succeeded although a store fault was armed" } else { "register" });
                // "stores a credential for that application": what the store is told about the relying party is the application
                if let Some(r) = &ref_handle {
                    let want = b64url(&application);
                    for call in r.log() {
                        if let crate::rt::StoreCall::Save { rp_arg, cred_rp, result: Ok(()), .. } = call {
                            if rp_arg != want || cred_rp != want {
                                return Err(format!("step {i}: the store was handed relying party {rp_arg:?} (credential bound to {cred_rp:?}) for a registration of application {want:?}"));
                            }
                        }
                    }
                    r.clear_log();
                }
                let (x, y) = (resp.public_key.x, resp.public_key.y);
                if resp.key_handle != *handle {
                    return Err(format!("step {i}: the response's key handle differs from the one supplied"));
                }
                // signature over 0x00 || application || challenge || key handle || 0x04 || x || y
                let mut msg = vec![0u8];
                msg.extend_from_slice(&application);
                msg.extend_from_slice(challenge);
                msg.extend_from_slice(handle);
                msg.push(4);
                msg.extend_from_slice(&x);
                msg.extend_from_slice(&y);
                let enc = verify_any(&x, &y, &msg, &resp.signature).map_err(|e| format!("step {i}: registration {e}"))?;
                ctx.class(&format!("register/signature-{enc}"));
                // stored credential for (application, key handle)
                let rp = b64url(&application);
                let found = block_on(auth.store().find_credentials(Some(&[cer::descriptor(handle)]), &rp)).map_err(|e| format!("step {i}: no credential stored for the application and key handle (0x{:02X})", u8::from(e)))?;
                let pk = found.iter().find(|p| p.credential_id.as_slice() == handle.as_slice() && p.rp_id == rp).ok_or_else(|| format!("step {i}: no credential stored for the application and key handle"))?;
                let d = snap(pk).d.ok_or("stored credential has no private key")?;
                let (sx, sy) = public_from_scalar(&d).ok_or("stored private key invalid")?;
                if sx != x || sy != y {
                    return Err(format!("step {i}: the stored private key does not belong to the returned public key"));
                }
                // encoded response
                let mut want = vec![0x05u8, 0x04];
                want.extend_from_slice(&x);
                want.extend_from_slice(&y);
                want.push(handle.len() as u8);
                want.extend_from_slice(handle);
                want.extend_from_slice(&resp.attestation_certificate);
                want.extend_from_slice(&resp.signature);
                want.extend_from_slice(&[0x90, 0x00]);
                let got = resp.encode();
                if got != want {
                    return Err(format!("step {i}: encoded registration response differs from reserved byte || public key || handle length || handle || certificate || signature || 9000"));
                }
                if single_slot {
                    regs.clear();
                }
                // the newest registration of a key handle wins (a keyed store holds one record per handle);
                // older registrations of the same handle under another application become unconstrained
                regs.retain(|r| r.handle != *handle);
                ever.push(handle.clone());
                regs.push(Reg { app: application, handle: handle.clone(), x, y });
            }
            Step::Authenticate { challenge, known, unknown, wrong_app, counter, flags, p1 } => {
                let target = known.filter(|_| !regs.is_empty()).map(|k| idx(k, regs.len()));
                let (application, handle) = match target {
                    Some(t) => (if *wrong_app { app(7) } else { regs[t].app }, regs[t].handle.clone()),
                    // an unknown handle: usually a fresh string, sometimes the empty handle or a prefix of a registered one
                    None => (
                        app(*counter as u8),
                        match unknown.len() % 4 {
                            0 => vec![],
                            1 if !regs.is_empty() => regs[0].handle.iter().take(regs[0].handle.len() / 2).copied().collect(),
                            // a rearrangement of a registered handle: two bytes swapped, or the same bit flipped in two places
                            // (same length, same byte sum / parity -- still a handle nobody registered)
                            _ if !regs.is_empty() && unknown.first().is_some_and(|b| b % 3 == 0) && regs[0].handle.len() >= 2 => {
                                let mut hnd = regs[0].handle.clone();
                                let n = hnd.len();
                                let (p, q) = (unknown[0] as usize % n, (unknown[0] as usize / 3 + 1 + unknown.len()) % n);
                                if p != q && hnd[p] != hnd[q] {
                                    hnd.swap(p, q);
                                } else {
                                    let q = if p == q { (p + 1) % n } else { q };
                                    hnd[p] ^= 0x10;
                                    hnd[q] ^= 0x10;
                                }
                                hnd
                            }
                            _ => [b"unknown-".as_slice(), unknown].concat(),
                        },
                    ),
                };
                let expect_known = regs.iter().any(|r| r.app == application && r.handle == handle);
                // a registered handle presented with another application is not constrained by the statement
                let handle_known_elsewhere = !expect_known && (regs.iter().any(|r| r.handle == handle) || ever.contains(&handle));
                let presence = Flags::from_bits_truncate(*flags);
                let parameter = match p1 % 3 {
                    0 => AuthenticationParameter::CheckOnly,
                    1 => AuthenticationParameter::EnforceUserPresence,
                    _ => AuthenticationParameter::DontEnforceUserPresence,
                };
                let req = AuthenticationRequest { parameter, challenge: *challenge, application, key_handle: handle.clone() };
                let res = catch_unwind(AssertUnwindSafe(|| block_on(U2fApi::authenticate(&auth, req, *counter, presence)))).map_err(|_| format!("step {i}: authenticate panicked: {}", crate::last_panic()))?;
                match res {
                    Err(e) => {
                        ctx.class("authenticate/error");
                        if expect_known && !single_slot_evicted(single_slot) {
                            return Err(format!("step {i}: authentication with a registered key handle and application failed with {e:?}"));
                        }
                    }
                    Ok(resp) => {
                        ctx.class("authenticate/ok");
                        if handle_known_elsewhere {
                            ctx.measure("authentications_with_registered_handle_but_other_application_that_succeeded(measured)", 1);
                            continue;
                        }
                        if !expect_known {
                            return Err(format!("step {i}: authentication succeeded for a key handle that was never registered"));
                        }
                        let r = regs.iter().find(|r| r.app == application && r.handle == handle).unwrap();
                        let pb: u8 = presence.into();
                        let mut msg = application.to_vec();
                        msg.push(pb);
                        msg.extend_from_slice(&counter.to_be_bytes());
                        msg.extend_from_slice(challenge);
                        verify_der(&r.x, &r.y, &msg, &resp.signature).map_err(|e| format!("step {i}: authentication {e} under the key registered for this handle over application || presence || counter || challenge"))?;
                        if resp.counter != *counter || u8::from(resp.user_presence) != pb {
                            return Err(format!("step {i}: response counter/presence differ from the ones signed"));
                        }
                        let mut want = vec![pb];
                        want.extend_from_slice(&counter.to_be_bytes());
                        want.extend_from_slice(&resp.signature);
                        want.extend_from_slice(&[0x90, 0x00]);
                        if resp.encode() != want {
                            return Err(format!("step {i}: encoded authentication response differs from presence byte (0x{pb:02X}) || counter || signature || 9000"));
                        }
                        did_auth_after_reg = true;
                    }
                }
            }
        }
    }
    if did_auth_after_reg {
        ctx.nontrivial(h);
    }
    Ok(())
}

pub fn check_history(ctx: &mut Ctx, h: &History) -> Result<(), String> {
    let r = match h.store % 3 {
        0 => run_history(ctx, MemoryStore::new(), false, h, None),
        1 => {
            let r = RefStore::new(Disc::Full);
            if h.no_counters_in_store {
                r.set_strip_counters(true);
                ctx.class("store that does not persist counters");
            }
            run_history(ctx, r.clone(), false, h, Some(r))
        }
        _ => run_history(ctx, None::<Passkey>, true, h, None),
    };
    ctx.sample(&format!("history/store{}", h.store % 3), || json!(h));
    r
}

// ------------------------------------------------------------------ request frames

#[derive(Clone, Debug, Serialize, Deserialize, PartialEq, Eq, Hash)]
pub enum Frame {
    Register { challenge: [u8; 32], application: [u8; 32], le: Option<u16> },
    Authenticate { p1: u8, challenge: [u8; 32], application: [u8; 32], handle: Vec<u8>, le: Option<u16> },
    Version { le: Option<u16> },
}

fn apdu(ins: u8, p1: u8, data: &[u8], le: Option<u16>, version_short: bool) -> Vec<u8> {
    let mut v = vec![0x00, ins, p1, 0x00];
    if data.is_empty() && version_short {
        // extended-length case 2: CLA INS P1 P2 00 Le1 Le2
        v.push(0);
        v.extend_from_slice(&le.unwrap_or(0).to_be_bytes());
        return v;
    }
    v.push(0);
    v.extend_from_slice(&(data.len() as u16).to_be_bytes());
    v.extend_from_slice(data);
    if let Some(le) = le {
        v.extend_from_slice(&le.to_be_bytes());
    }
    v
}

pub fn check_frame(ctx: &mut Ctx, f: &Frame) -> Result<(), String> {
    ctx.eval();
    let (bytes, ins, p1, data): (Vec<u8>, u8, u8, Vec<u8>) = match f {
        Frame::Register { challenge, application, le } => {
            let d = [challenge.as_slice(), application].concat();
            (apdu(1, 0, &d, *le, false), 1, 0, d)
        }
        Frame::Authenticate { p1, challenge, application, handle, le } => {
            let p1 = [3u8, 7, 8][*p1 as usize % 3];
            let mut d = [challenge.as_slice(), application].concat();
            d.push(handle.len() as u8);
            d.extend_from_slice(handle);
            (apdu(2, p1, &d, *le, false), 2, p1, d)
        }
        Frame::Version { le } => {
            if le.is_some_and(|l| l != 0) {
                // a data-less frame with a non-zero Le: measured only (see assumptions)
                let b = apdu(3, 0, &[], *le, true);
                let ok = catch_unwind(AssertUnwindSafe(|| Request::try_from(b.as_slice()).is_ok())).map_err(|_| format!("Request::try_from panicked: {}", crate::last_panic()))?;
                ctx.measure(if ok { "version_frames_with_nonzero_le_parsed(measured)" } else { "version_frames_with_nonzero_le_rejected(measured)" }, 1);
                return Ok(());
            }
            (apdu(3, 0, &[], *le, le.is_some()), 3, 0, vec![])
        }
    };
    let req = catch_unwind(AssertUnwindSafe(|| Request::try_from(bytes.as_slice()))).map_err(|_| format!("Request::try_from panicked: {}", crate::last_panic()))?.map_err(|e| format!("a well-formed frame was rejected with {e:?}: {}", crate::core::hex(&bytes[..bytes.len().min(16)])))?;
    if req.cla != 0 || u8::from(req.ins) != ins || req.p1 != p1 {
        return Err("header fields of the parsed request differ from the frame".into());
    }
    // for a data-less version frame with Le the length bytes are the Le field
    if !(matches!(f, Frame::Version { le: Some(_) })) && req.data_len != data.len() {
        return Err(format!("parsed data length {} differs from the frame's {}", req.data_len, data.len()));
    }
    match (f, &req.data) {
        (Frame::Register { challenge, application, .. }, RequestPayload::Register(r)) => {
            if r.challenge != *challenge || r.application != *application {
                return Err("parsed register request differs from the frame".into());
            }
        }
        (Frame::Authenticate { challenge, application, handle, .. }, RequestPayload::Authenticate(r)) => {
            if r.challenge != *challenge || r.application != *application || r.key_handle != *handle || u8::from(match r.parameter {
                AuthenticationParameter::CheckOnly => AuthenticationParameter::CheckOnly,
                AuthenticationParameter::EnforceUserPresence => AuthenticationParameter::EnforceUserPresence,
                AuthenticationParameter::DontEnforceUserPresence => AuthenticationParameter::DontEnforceUserPresence,
            }) != p1
            {
                return Err("parsed authenticate request differs from the frame".into());
            }
        }
        (Frame::Version { .. }, RequestPayload::Version) => {}
        _ => return Err("the parsed payload is of a different kind than the frame".into()),
    }
    if !data.is_empty() {
        ctx.nontrivial(f);
    }
    ctx.class(match f {
        Frame::Register { .. } => "frame/register",
        Frame::Authenticate { .. } => "frame/authenticate",
        Frame::Version { .. } => "frame/version",
    });
    ctx.sample("frame", || json!({"frame": f, "apdu_hex_prefix": crate::core::hex(&bytes[..bytes.len().min(12)])}));
    Ok(())
}

fn handle() -> impl Strategy<Value = Vec<u8>> {
    prop_oneof![
        1 => Just(vec![]),
        1 => proptest::collection::vec(any::<u8>(), 255..=255),
        1 => proptest::collection::vec(any::<u8>(), 254..=254),
        2 => proptest::collection::vec(any::<u8>(), 16..=16),
        6 => proptest::collection::vec(any::<u8>(), 0..=255),
    ]
}

fn history() -> impl Strategy<Value = History> {
    let step = prop_oneof![
        2 => (any::<[u8; 32]>(), any::<u8>(), handle(), proptest::option::weighted(0.3, any::<u16>()), proptest::option::weighted(0.15, (0u8..3, prop_oneof![Just(0x28u8), Just(0x2E), Just(0x7F), Just(0x01), Just(0x06), any::<u8>()])))
            .prop_map(|(challenge, app, handle, reuse, fault)| Step::Register { challenge, app, handle, reuse, fault }),
        3 => (any::<[u8; 32]>(), proptest::option::weighted(0.8, any::<u16>()), proptest::collection::vec(any::<u8>(), 0..20), proptest::bool::weighted(0.1), prop_oneof![Just(0u32), Just(u32::MAX), Just(0x0102_0304), any::<u32>()], any::<u8>(), any::<u8>())
            .prop_map(|(challenge, known, unknown, wrong_app, counter, flags, p1)| Step::Authenticate { challenge, known, unknown, wrong_app, counter, flags, p1 }),
    ];
    (0u8..3, proptest::collection::vec(step, 1..10), proptest::bool::weighted(0.25)).prop_map(|(store, steps, no_presence_capability)| {
        // one history in five uses constant-byte application parameters
        let const_apps = steps.len() % 5 == 0;
        let no_counters_in_store = store == 1 && steps.len() % 3 == 1;
        History { store, steps, no_presence_capability, const_apps, no_counters_in_store }
    })
}

fn frame() -> impl Strategy<Value = Frame> {
    let le = proptest::option::of(any::<u16>());
    prop_oneof![
        2 => (any::<[u8; 32]>(), any::<[u8; 32]>(), le.clone()).prop_map(|(challenge, application, le)| Frame::Register { challenge, application, le }),
        4 => (any::<u8>(), any::<[u8; 32]>(), any::<[u8; 32]>(), handle(), le.clone()).prop_map(|(p1, challenge, application, handle, le)| Frame::Authenticate { p1, challenge, application, handle, le }),
        1 => le.prop_map(|le| Frame::Version { le }),
    ]
}

pub fn run(ctx: &mut Ctx) {
    let fs = ctx.first_shard();
    ctx.rule = "histories of 1-9 U2F registrations (challenge, 3 application parameters, key handles of 0..=255 bytes incl. 0/16/254/255) and authentications (registered or unknown handle, wrong application, counters incl. 0/max, all presence flag bytes, all three control bytes) on MemoryStore, the reference store and the Option slot; and well-formed extended-length request frames for register / authenticate (P1 in {3,7,8}) / version with and without Le. Since rounds 7/8: constant-byte application parameters (all 256), unknown handles that are rearrangements of a registered one, a reference store that does not persist counters. Non-trivial = a history with a successful authentication after a registration, or a frame with payload; distinct by history / frame.".into();
    ctx.assumptions = vec![
        "the registration signature may be DER or fixed r||s (the statement only requires that it verifies); the authentication signature is checked as DER".into(),
        "stores used are infallible, so every registration must succeed".into(),
        "version frames are asserted with Le absent or 0 (= maximum, what U2F clients send); a data-less frame with a non-zero Le cannot be told from a truncated Lc frame by this parser and is measured only".into(),
        "a registered key handle presented with a different application is not constrained by the statement (measured); when the same key handle is registered again (under any application) only the newest registration is tracked".into(),
    ];
    let n = ctx.tier.pick(1_200u32, 400_000u32);
    match search(ctx, 17, n, history(), check_history) {
        Search::Pass => {}
        Search::Fail(h, e) => ctx.violation("histories", json!(h), &e),
    }
    let n = ctx.tier.pick(20_000u32, 6_000_000u32);
    match search(ctx, 27, n, frame(), check_frame) {
        Search::Pass => {}
        Search::Fail(f, e) => ctx.violation("frames", json!(f), &e),
    }
    // every handle length, once
    for len in (0..=255usize).filter(|_| fs) {
        let h = History { store: (len % 3) as u8, steps: vec![Step::Register { challenge: [len as u8; 32], app: 1, handle: vec![0xA5; len], reuse: None, fault: None }, Step::Authenticate { challenge: [7; 32], known: Some(0), unknown: vec![], wrong_app: false, counter: len as u32, flags: len as u8, p1: len as u8 }], no_presence_capability: false, const_apps: false, no_counters_in_store: len % 6 == 1 };
        if let Err(e) = check_history(ctx, &h) {
            ctx.violation("handle-lengths", json!(h), &e);
            break;
        }
        let f = Frame::Authenticate { p1: len as u8, challenge: [1; 32], application: [2; 32], handle: vec![3; len], le: (len % 2 == 0).then_some(0) };
        if let Err(e) = check_frame(ctx, &f) {
            ctx.violation("frames-handle-lengths", json!(f), &e);
            break;
        }
    }
    // every constant-byte application parameter, once
    for b in (0..=255u8).filter(|_| fs) {
        let h = History { store: b % 3, steps: vec![Step::Register { challenge: [b ^ 0x5A; 32], app: b, handle: format!("const-app-handle-{b}").into_bytes(), reuse: None, fault: None }, Step::Authenticate { challenge: [9; 32], known: Some(0), unknown: vec![], wrong_app: false, counter: b as u32, flags: 1, p1: 0 }], no_presence_capability: false, const_apps: true, no_counters_in_store: b % 6 == 1 };
        if let Err(e) = check_history(ctx, &h) {
            ctx.violation("histories", json!(h), &e);
            break;
        }
    }
    // version response
    ctx.eval();
    if Version.encode() != [b"U2F_V2".as_slice(), &[0x90, 0x00]].concat() {
        ctx.violation("version", json!({"store": 0, "steps": []}), "encoded version response is not \"U2F_V2\" || 9000");
    }
}

pub fn replay(ctx: &mut Ctx, stage: &str, case: &Value) -> Result<(), String> {
    if stage.starts_with("frames") {
        let f: Frame = serde_json::from_value(case.clone()).map_err(|e| format!("bad case: {e}"))?;
        check_frame(ctx, &f)
    } else {
        let h: History = serde_json::from_value(case.clone()).map_err(|e| format!("bad case: {e}"))?;
        check_history(ctx, &h)
    }
}

/// (decoder index of the C15 table, bytes): whole frames for Request::try_from, payloads for the two inner parsers
pub fn frame_bytes() -> impl Strategy<Value = (usize, Vec<u8>)> {
    (frame(), 0u8..4).prop_map(|(f, which)| {
        let (bytes, data): (Vec<u8>, Vec<u8>) = match &f {
            Frame::Register { challenge, application, le } => {
                let d = [challenge.as_slice(), application].concat();
                (apdu(1, 0, &d, *le, false), d)
            }
            Frame::Authenticate { p1, challenge, application, handle, le } => {
                let mut d = [challenge.as_slice(), application].concat();
                d.push(handle.len() as u8);
                d.extend_from_slice(handle);
                (apdu(2, [3u8, 7, 8][*p1 as usize % 3], &d, *le, false), d)
            }
            Frame::Version { le } => (apdu(3, 0, &[], *le, le.is_some()), vec![]),
        };
        match (which, &f) {
            (3, Frame::Register { .. }) => (14, data),
            (3, Frame::Authenticate { .. }) => (15, data),
            _ => (13, bytes),
        }
    })
}
