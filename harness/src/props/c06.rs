//! C06 — private keys and PRF secrets never appear in anything handed back to callers.

use passkey_authenticator::U2fApi;
use passkey_client::{Client, DefaultClientData, DefaultClientDataWithExtra};
use passkey_types::ctap2::extensions::{AuthenticatorPrfInputs, AuthenticatorPrfValues};
use passkey_types::ctap2::{get_assertion, make_credential, Flags};
use passkey_types::u2f::{AuthenticationParameter, AuthenticationRequest, RegisterRequest};
use passkey_types::webauthn::{AuthenticationExtensionsClientInputs, AuthenticationExtensionsPrfInputs, AuthenticationExtensionsPrfValues};
use proptest::prelude::*;
use serde::{Deserialize, Serialize};
use serde_json::{json, Value};

use crate::cer::{self, AuthCfg, HmacCfg};
use crate::ceremony::SITES;
use crate::core::{search, Ctx, Search};
use crate::model::authdata;
use crate::model::rpid::{HProvider, ProviderKind};
use crate::model::util::{snap, PkSnap};
use crate::props::c13::to_cbor;
use crate::rt::{block_on, Disc, RefStore, ScriptedUv, UvScript};

#[derive(Clone, Debug, Serialize, Deserialize, PartialEq, Eq, Hash)]
pub struct Case {
    pub hmac: HmacCfg,
    pub counter: bool,
    pub verified: bool,
    pub uv_req: u8,
    pub site: u8,
    /// PRF request at registration / assertion: 0 none, 1 one input, 2 two inputs
    pub prf_reg: u8,
    pub prf_auth: u8,
    pub prf_input: Vec<u8>,
    /// 0: inputs are hashed by the client / harness; 1: raw 32-byte salt of zeros; 2: of 0xFF; 3: of 0x01 (pre-hashed inputs)
    #[serde(default)]
    pub raw_salt: u8,
    pub extra: Option<Value>,
    /// 0 WebAuthn client, 1 CTAP2 level, 2 U2F
    pub level: u8,
    pub challenge: Vec<u8>,
    /// capability of the store: 0 full, 1 forced discoverable, 2 non-discoverable credentials only
    #[serde(default)]
    pub disc: u8,
}

/// all byte strings hidden in a rendering: the rendering itself, decoded decimal lists, hex runs
/// and base64/base64url runs (every alignment)
fn decodings(r: &[u8]) -> Vec<Vec<u8>> {
    let mut out = vec![r.to_vec()];
    let text: String = String::from_utf8_lossy(r).chars().filter(|c| !c.is_whitespace()).collect();
    let tb = text.as_bytes();
    // CBOR: arrays of small integers anywhere in a CBOR item (serde encodes [u8; 32] that way)
    if let Ok(v) = ciborium::de::from_reader::<ciborium::value::Value, _>(r) {
        fn walk(v: &ciborium::value::Value, out: &mut Vec<Vec<u8>>) {
            match v {
                ciborium::value::Value::Array(a) => {
                    let ints: Vec<u8> = a.iter().filter_map(|x| x.as_integer().and_then(|i| u8::try_from(i128::from(i)).ok())).collect();
                    if ints.len() == a.len() && ints.len() >= 16 {
                        out.push(ints);
                    }
                    for x in a {
                        walk(x, out);
                    }
                }
                ciborium::value::Value::Map(m) => {
                    for (k, x) in m {
                        walk(k, out);
                        walk(x, out);
                    }
                }
                ciborium::value::Value::Tag(_, x) => walk(x, out),
                ciborium::value::Value::Bytes(b) => {
                    // nested CBOR inside byte strings (authenticator data, attestation object)
                    if b.len() > 37 {
                        for off in [0usize, 37, 55] {
                            if off < b.len() {
                                if let Ok(inner) = ciborium::de::from_reader::<ciborium::value::Value, _>(&b[off..]) {
                                    walk(&inner, out);
                                }
                            }
                        }
                    }
                }
                _ => {}
            }
        }
        walk(&v, &mut out);
    }
    // decimal lists
    let mut i = 0;
    while i < tb.len() {
        if tb[i].is_ascii_digit() {
            let mut vals = vec![];
            let mut j = i;
            loop {
                let s = j;
                while j < tb.len() && tb[j].is_ascii_digit() && j - s < 4 {
                    j += 1;
                }
                match text[s..j].parse::<u32>() {
                    Ok(v) if v < 256 && j > s => vals.push(v as u8),
                    _ => break,
                }
                if j < tb.len() && tb[j] == b',' {
                    j += 1;
                } else {
                    break;
                }
            }
            if vals.len() >= 16 {
                out.push(vals);
            }
            i = j.max(i + 1);
        } else {
            i += 1;
        }
    }
    // hex runs
    let mut i = 0;
    while i < tb.len() {
        if tb[i].is_ascii_hexdigit() {
            let s = i;
            while i < tb.len() && tb[i].is_ascii_hexdigit() {
                i += 1;
            }
            if i - s >= 32 {
                for off in 0..2 {
                    let h = &text[s + off..i];
                    let n = h.len() / 2;
                    out.push((0..n).map(|k| u8::from_str_radix(&h[2 * k..2 * k + 2], 16).unwrap()).collect());
                }
            }
        } else {
            i += 1;
        }
    }
    // base64 / base64url runs
    let is_b64 = |c: u8| c.is_ascii_alphanumeric() || c == b'+' || c == b'/' || c == b'-' || c == b'_';
    let mut i = 0;
    while i < tb.len() {
        if is_b64(tb[i]) {
            let s = i;
            while i < tb.len() && is_b64(tb[i]) {
                i += 1;
            }
            if i - s >= 20 {
                let run = text[s..i].replace('+', "-").replace('/', "_");
                for off in 0..4 {
                    let mut piece = &run[off..];
                    while piece.len() % 4 == 1 {
                        piece = &piece[..piece.len() - 1];
                    }
                    if let Some(b) = crate::model::util::b64url_decode(piece) {
                        out.push(b);
                    }
                }
            }
        } else {
            i += 1;
        }
    }
    out
}

fn contains(hay: &[u8], needle: &[u8]) -> bool {
    needle.len() <= hay.len() && hay.windows(needle.len()).any(|w| w == needle)
}

struct Scanner {
    secrets: Vec<(String, Vec<u8>)>,
    bytes_scanned: u64,
    renderings: u64,
}

impl Scanner {
    fn new(stored: &[PkSnap]) -> Self {
        let mut secrets = vec![];
        for s in stored {
            for (name, v) in [("private scalar d", &s.d), ("verification-gated PRF secret", &s.hmac_uv), ("non-gated PRF secret", &s.hmac_no_uv)] {
                if let Some(v) = v {
                    secrets.push((name.to_string(), v.clone()));
                    if v.len() >= 32 {
                        secrets.push((format!("{name} (first half)"), v[..16].to_vec()));
                        secrets.push((format!("{name} (second half)"), v[v.len() - 16..].to_vec()));
                    }
                }
            }
        }
        Scanner { secrets, bytes_scanned: 0, renderings: 0 }
    }
    fn scan(&mut self, what: &str, rendering: &[u8]) -> Result<(), String> {
        self.renderings += 1;
        self.bytes_scanned += rendering.len() as u64;
        for d in decodings(rendering) {
            for (name, s) in &self.secrets {
                if contains(&d, s) {
                    return Err(format!("the {name} of a stored credential appears in {what}"));
                }
            }
        }
        Ok(())
    }
    fn scan_dbg<T: std::fmt::Debug>(&mut self, what: &str, t: &T) -> Result<(), String> {
        self.scan(&format!("{what} ({{:?}})"), format!("{t:?}").as_bytes())?;
        self.scan(&format!("{what} ({{:#?}})"), format!("{t:#?}").as_bytes())
    }
}

fn raw_salt(sel: u8) -> Option<[u8; 32]> {
    match sel % 4 {
        1 => Some([0u8; 32]),
        2 => Some([0xFF; 32]),
        3 => Some([1u8; 32]),
        _ => None,
    }
}

fn prf_ext(n: u8, input: &[u8], raw: u8) -> Option<AuthenticationExtensionsClientInputs> {
    if n == 3 {
        // the PRF extension requested without any input (the usual "is PRF enabled" probe)
        return Some(AuthenticationExtensionsClientInputs { cred_props: None, prf: Some(AuthenticationExtensionsPrfInputs { eval: None, eval_by_credential: None }), prf_already_hashed: None });
    }
    (n > 0).then(|| match raw_salt(raw) {
        // boundary salts handed over as pre-hashed inputs
        Some(s) => AuthenticationExtensionsClientInputs {
            cred_props: Some(true),
            prf: None,
            prf_already_hashed: Some(AuthenticationExtensionsPrfInputs { eval: Some(AuthenticationExtensionsPrfValues { first: s.to_vec().into(), second: (n > 1).then(|| [0u8; 32].to_vec().into()) }), eval_by_credential: None }),
        },
        None => AuthenticationExtensionsClientInputs {
            cred_props: Some(true),
            prf: Some(AuthenticationExtensionsPrfInputs { eval: Some(AuthenticationExtensionsPrfValues { first: input.to_vec().into(), second: (n > 1).then(|| [input, b"-2"].concat().into()) }), eval_by_credential: None }),
            prf_already_hashed: None,
        },
    })
}

pub fn check(ctx: &mut Ctx, c: &Case) -> Result<(), String> {
    ctx.eval();
    // the store already holds an imported credential of another RP whose COSE key lists its parameters in numeric label
    // order (d first): nothing the library renders may depend on the position of a parameter
    let mut imported = crate::model::util::make_passkey(606, "imported.example", b"c06-imported-credential", Some(b"imported-user"), Some(9), None);
    imported.key.params.sort_by_key(|(l, _)| match l {
        coset::Label::Int(i) => *i,
        _ => 0,
    });
    let store = RefStore::with([Disc::Full, Disc::ForcedDiscoverable, Disc::OnlyNonDiscoverable][c.disc as usize % 3], vec![imported]);
    ctx.class(&format!("store capability {:?}", [Disc::Full, Disc::ForcedDiscoverable, Disc::OnlyNonDiscoverable][c.disc as usize % 3]));
    let uv = ScriptedUv::new(if c.verified { UvScript::verified() } else { UvScript::present_only() });
    let cfg = AuthCfg { hmac: c.hmac, counter: c.counter, ..Default::default() };
    let auth = cer::build_authenticator(store.clone(), uv, &cfg);
    let site = &SITES[c.site as usize % SITES.len()];
    let stored = |store: &RefStore| -> Vec<PkSnap> { store.creds().iter().map(snap).collect() };
    let mut total_secrets = 0usize;
    let mut artefacts = 0u64;
    let mut bytes = 0u64;
    match c.level % 3 {
        0 => {
            let mut client = Client::new_with_custom_tld_provider(auth, HProvider::new(ProviderKind::Default)).allows_insecure_localhost(true);
            let info = block_on(client.authenticator().get_info());
            // the attestation conveyance preference of both requests varies with the case (none / indirect / direct / enterprise)
            use passkey_types::webauthn::AttestationConveyancePreference as Att;
            let att = [Att::None, Att::Indirect, Att::Direct, Att::Enterprise][(c.uv_req / 3) as usize % 4];
            let mut req = cer::creation_options(site.rp, &c.challenge, b"c06-user", "user", &[-7], None, Some(cer::selection(None, false, cer::uv_req(c.uv_req))), prf_ext(c.prf_reg, &c.prf_input, c.raw_salt));
            req.public_key.attestation = att;
            let res = match &c.extra {
                Some(e) => block_on(client.register(site.origin(), req, DefaultClientDataWithExtra(e.clone()))),
                None => block_on(client.register(site.origin(), req, DefaultClientData)),
            };
            let mut sc = Scanner::new(&stored(&store));
            total_secrets += sc.secrets.len();
            sc.scan_dbg("get_info", &info)?;
            sc.scan("get_info CBOR", &to_cbor(&info)?)?;
            match &res {
                Ok(cred) => {
                    sc.scan("registration result JSON", serde_json::to_string(cred).unwrap().as_bytes())?;
                    sc.scan_dbg("registration result", cred)?;
                    sc.scan("attestationObject", &cred.response.attestation_object)?;
                    sc.scan("authenticatorData", &cred.response.authenticator_data)?;
                    sc.scan("clientDataJSON", &cred.response.client_data_json)?;
                    if let Some(pk) = &cred.response.public_key {
                        sc.scan("publicKey DER", pk)?;
                    }
                    let ad = authdata::decode(&cred.response.authenticator_data)?;
                    if let Some(att) = &ad.att {
                        authdata::public_es256_key(&att.key).map_err(|e| format!("attested credential public key: {e}"))?;
                    }
                }
                Err(e) => sc.scan_dbg("registration error", e)?,
            }
            for pk in store.creds() {
                sc.scan_dbg("Debug of a stored passkey", &pk)?;
            }
            if res.is_ok() {
                let mut req2 = cer::request_options(site.rp, &c.challenge, None, cer::uv_req(c.uv_req), prf_ext(c.prf_auth, &c.prf_input, c.raw_salt));
                req2.public_key.attestation = att;
                let res2 = block_on(client.authenticate(site.origin(), req2, DefaultClientData));
                let mut sc2 = Scanner::new(&stored(&store));
                match &res2 {
                    Ok(a) => {
                        sc2.scan("assertion result JSON", serde_json::to_string(a).unwrap().as_bytes())?;
                        sc2.scan_dbg("assertion result", a)?;
                        sc2.scan("assertion authenticatorData", &a.response.authenticator_data)?;
                        sc2.scan("assertion signature", &a.response.signature)?;
                        if let Some(ao) = &a.response.attestation_object {
                            sc2.scan("assertion attestationObject", ao)?;
                        }
                    }
                    Err(e) => sc2.scan_dbg("assertion error", e)?,
                }
                for pk in store.creds() {
                    sc2.scan_dbg("Debug of a stored passkey", &pk)?;
                }
                artefacts += sc2.renderings;
                bytes += sc2.bytes_scanned;
            }
            artefacts += sc.renderings;
            bytes += sc.bytes_scanned;
        }
        1 => {
            let mut auth = auth;
            let salts = |n: u8| AuthenticatorPrfInputs { eval: (n > 0 && n < 3).then(|| AuthenticatorPrfValues { first: raw_salt(c.raw_salt).unwrap_or_else(|| crate::model::util::sha256(&c.prf_input)), second: (n > 1).then_some(if c.raw_salt % 4 == 0 { [9u8; 32] } else { [0u8; 32] }) }), eval_by_credential: None };
            let req = make_credential::Request {
                client_data_hash: crate::model::util::sha256(&c.challenge).to_vec().into(),
                rp: make_credential::PublicKeyCredentialRpEntity { id: site.effective.into(), name: None },
                user: passkey_types::webauthn::PublicKeyCredentialUserEntity { id: b"c06-user".to_vec().into(), display_name: "d".into(), name: "n".into() },
                pub_key_cred_params: cer::params(&[-7]),
                exclude_list: None,
                // (a third of these also carry an hmac-secret-mc input, which only a CTAP2-level caller can send)
                extensions: (c.prf_reg > 0).then(|| make_credential::ExtensionInputs {
                    hmac_secret: Some(true),
                    hmac_secret_mc: (c.prf_input.len() % 3 == 1).then(|| passkey_types::ctap2::extensions::HmacGetSecretInput { key_agreement: ciborium::value::Value::Map(vec![]), salt_enc: vec![0x5A; 32].into(), salt_auth: vec![0xA5; 16].into(), pin_uv_auth_protocol: (c.prf_input.len() % 2 == 0).then_some(1) }),
                    prf: (c.prf_input.len() % 5 != 4).then(|| salts(c.prf_reg)),
                }),
                options: make_credential::Options { rk: c.disc % 3 != 2 && c.site % 2 == 0, up: true, uv: c.uv_req % 3 != 2 },
                pin_auth: None,
                pin_protocol: None,
            };
            let res = block_on(auth.make_credential(req));
            let mut sc = Scanner::new(&stored(&store));
            total_secrets += sc.secrets.len();
            match &res {
                Ok(r) => {
                    sc.scan("makeCredential response CBOR", &to_cbor(r)?)?;
                    sc.scan_dbg("makeCredential response", r)?;
                    sc.scan("makeCredential authData", &r.auth_data.to_vec())?;
                    if let Some(a) = &r.auth_data.attested_credential_data {
                        if a.key.params.iter().any(|(l, _)| *l == coset::Label::Int(-4)) {
                            return Err("the attested COSE key carries the private parameter d (label -4)".into());
                        }
                    }
                }
                Err(e) => sc.scan_dbg("makeCredential error", e)?,
            }
            let res2 = block_on(auth.get_assertion(get_assertion::Request {
                rp_id: site.effective.into(),
                client_data_hash: vec![3u8; 32].into(),
                allow_list: None,
                extensions: (c.prf_auth > 0).then(|| get_assertion::ExtensionInputs { hmac_secret: None, prf: Some(salts(c.prf_auth)) }),
                options: get_assertion::Options { rk: false, up: true, uv: c.uv_req % 3 != 2 },
                pin_auth: None,
                pin_protocol: None,
            }));
            let mut sc2 = Scanner::new(&stored(&store));
            match &res2 {
                Ok(r) => {
                    sc2.scan("getAssertion response CBOR", &to_cbor(r)?)?;
                    sc2.scan_dbg("getAssertion response", r)?;
                }
                Err(e) => sc2.scan_dbg("getAssertion error", e)?,
            }
            for pk in store.creds() {
                sc2.scan_dbg("Debug of a stored passkey", &pk)?;
            }
            // an imported credential of this RP whose PRF secrets have other lengths than 32 bytes, asked for a PRF evaluation:
            // whatever happens (result, error, even a panic) must not show the secrets
            if c.hmac.enabled() && c.prf_auth > 0 {
                let odd_len = [20usize, 48, 65, 33][c.prf_input.len() % 4];
                let odd = crate::model::util::make_passkey(607, site.effective, b"c06-odd-secret-credential", Some(b"odd-user"), None, Some(((0..odd_len).map(|i| 0x30 + (i * 7 % 200) as u8).collect(), Some((0..odd_len).map(|i| 0x21 + (i * 11 % 200) as u8).collect()))));
                store.0.lock().unwrap().creds.push(odd);
                let req = get_assertion::Request {
                    rp_id: site.effective.into(),
                    client_data_hash: vec![4u8; 32].into(),
                    allow_list: Some(vec![cer::descriptor(b"c06-odd-secret-credential")]),
                    extensions: Some(get_assertion::ExtensionInputs { hmac_secret: None, prf: Some(salts(c.prf_auth)) }),
                    options: get_assertion::Options { rk: false, up: true, uv: c.uv_req % 3 != 2 },
                    pin_auth: None,
                    pin_protocol: None,
                };
                let mut sc4 = Scanner::new(&stored(&store));
                match std::panic::catch_unwind(std::panic::AssertUnwindSafe(|| block_on(auth.get_assertion(req)))) {
                    Ok(Ok(r)) => {
                        sc4.scan("getAssertion response CBOR (credential with odd-sized secrets)", &to_cbor(&r)?)?;
                        sc4.scan_dbg("getAssertion response (credential with odd-sized secrets)", &r)?;
                    }
                    Ok(Err(e)) => sc4.scan_dbg("getAssertion error (credential with odd-sized secrets)", &e)?,
                    Err(_) => {
                        ctx.class("ctap2/panic while evaluating PRF on odd-sized secrets (message scanned)");
                        sc4.scan("panic message (credential with odd-sized secrets)", crate::last_panic().as_bytes())?;
                    }
                }
                artefacts += sc4.renderings;
                bytes += sc4.bytes_scanned;
                store.0.lock().unwrap().creds.retain(|p| p.credential_id.as_slice() != b"c06-odd-secret-credential");
            }
            // the same account registers again (an authenticator may replace or keep the earlier credential)
            let again = make_credential::Request {
                client_data_hash: crate::model::util::sha256(b"again").to_vec().into(),
                rp: make_credential::PublicKeyCredentialRpEntity { id: site.effective.into(), name: None },
                user: passkey_types::webauthn::PublicKeyCredentialUserEntity { id: b"c06-user".to_vec().into(), display_name: "d".into(), name: "n".into() },
                pub_key_cred_params: cer::params(&[-7]),
                exclude_list: None,
                extensions: None,
                options: make_credential::Options { rk: c.disc % 3 != 2 && c.site % 2 == 0, up: true, uv: c.uv_req % 3 != 2 },
                pin_auth: None,
                pin_protocol: None,
            };
            let res3 = block_on(auth.make_credential(again));
            let mut sc3 = Scanner::new(&stored(&store));
            match &res3 {
                Ok(r) => {
                    sc3.scan("second makeCredential response CBOR", &to_cbor(r)?)?;
                    sc3.scan_dbg("second makeCredential response", r)?;
                    sc3.scan("second makeCredential authData", &r.auth_data.to_vec())?;
                    if let Some(a) = &r.auth_data.attested_credential_data {
                        if a.key.params.iter().any(|(l, _)| *l == coset::Label::Int(-4)) {
                            return Err("the attested COSE key of a re-registration carries the private parameter d (label -4)".into());
                        }
                    }
                }
                Err(e) => sc3.scan_dbg("second makeCredential error", e)?,
            }
            artefacts += sc.renderings + sc2.renderings + sc3.renderings;
            bytes += sc.bytes_scanned + sc2.bytes_scanned + sc3.bytes_scanned;
        }
        _ => {
            let mut auth = auth;
            let app = crate::model::util::sha256(site.effective.as_bytes());
            let chal = crate::model::util::sha256(&c.challenge);
            // key handles are chosen by the caller: usually a string, sometimes empty or a single byte
            let handle = match c.challenge.len() % 3 {
                0 => vec![],
                1 => b"c06-u2f-key-handle".to_vec(),
                _ => vec![c.challenge.len() as u8],
            };
            let res = block_on(U2fApi::register(&mut auth, RegisterRequest { challenge: chal, application: app }, &handle));
            let mut sc = Scanner::new(&stored(&store));
            total_secrets += sc.secrets.len();
            match res {
                Ok(r) => sc.scan("U2F registration response", &r.encode())?,
                Err(e) => sc.scan_dbg("U2F registration error", &e)?,
            }
            let res2 = block_on(U2fApi::authenticate(&auth, AuthenticationRequest { parameter: AuthenticationParameter::EnforceUserPresence, challenge: chal, application: app, key_handle: handle }, 7, Flags::UP));
            match res2 {
                Ok(r) => sc.scan("U2F authentication response", &r.encode())?,
                Err(e) => sc.scan_dbg("U2F authentication error", &e)?,
            }
            for pk in store.creds() {
                sc.scan_dbg("Debug of a stored passkey", &pk)?;
            }
            artefacts += sc.renderings;
            bytes += sc.bytes_scanned;
        }
    }
    ctx.measure("renderings_scanned", artefacts);
    ctx.measure("bytes_scanned", bytes);
    if total_secrets > 0 && artefacts > 0 {
        ctx.nontrivial(c);
    }
    ctx.class(&format!("{}/{}", ["webauthn", "ctap2", "u2f"][c.level as usize % 3], if total_secrets > 3 { "with-prf-secrets" } else if total_secrets > 0 { "key-only" } else { "nothing-stored" }));
    ctx.sample(["webauthn", "ctap2", "u2f"][c.level as usize % 3], || json!({"case": c, "secrets_and_halves_searched": total_secrets, "renderings": artefacts, "bytes": bytes}));
    Ok(())
}

fn self_test() -> Result<(), String> {
    // the scanner must find a secret in every representation it claims to cover
    let secret: Vec<u8> = (0..32u8).map(|i| i.wrapping_mul(37).wrapping_add(11)).collect();
    let snapx = PkSnap { id: vec![1], rp_id: "x".into(), user_handle: None, counter: None, d: Some(secret.clone()), x: None, y: None, hmac_uv: None, hmac_no_uv: None };
    let mut blob = vec![0xA5u8; 7];
    blob.extend_from_slice(&secret);
    blob.extend_from_slice(&[0x5A; 5]);
    let reps: Vec<(&str, Vec<u8>)> = vec![
        ("raw", blob.clone()),
        ("hex", crate::core::hex(&blob).into_bytes()),
        ("HEX", crate::core::hex(&blob).to_uppercase().into_bytes()),
        ("base64url", crate::model::util::b64url(&blob).into_bytes()),
        ("base64 padded", crate::model::util::b64std_padded(&blob).into_bytes()),
        ("json array", serde_json::to_string(&blob).unwrap().into_bytes()),
        ("debug", format!("{blob:?}").into_bytes()),
        ("debug alt", format!("{blob:#?}").into_bytes()),
        ("second half only", format!("{:?}", &blob[23..]).into_bytes()),
        ("cbor array of integers", {
            let arr: [u8; 32] = secret.clone().try_into().unwrap();
            let mut b = vec![];
            ciborium::ser::into_writer(&ciborium::value::Value::Map(vec![(ciborium::value::Value::Integer(6.into()), ciborium::value::Value::serialized(&arr).unwrap())]), &mut b).unwrap();
            b
        }),
    ];
    for (name, r) in reps {
        let mut sc = Scanner::new(std::slice::from_ref(&snapx));
        if sc.scan("self-test", &r).is_ok() {
            return Err(format!("scanner self-test failed: secret not found in its {name} form"));
        }
    }
    Ok(())
}

fn case() -> impl Strategy<Value = Case> {
    (
        prop_oneof![1 => Just(HmacCfg::None), 2 => Just(HmacCfg::UvOnly), 2 => Just(HmacCfg::UvOnlyMc), 2 => Just(HmacCfg::WithoutUv), 3 => Just(HmacCfg::WithoutUvMc)],
        any::<bool>(),
        proptest::bool::weighted(0.7),
        any::<u8>(),
        any::<u8>(),
        0u8..4,
        0u8..4,
        proptest::collection::vec(any::<u8>(), 0..40),
        proptest::option::weighted(0.3, crate::ceremony::json_extra()),
        prop_oneof![3 => Just(0u8), 2 => Just(1u8), 1 => Just(2u8)],
        proptest::collection::vec(any::<u8>(), 0..40),
    )
        .prop_map(|(hmac, counter, verified, uv_req, site, prf_reg, prf_auth, prf_input, extra, level, challenge)| Case { hmac, counter, verified, uv_req, site, prf_reg, prf_auth, raw_salt: if challenge.len() % 3 == 0 { (challenge.len() / 3) as u8 } else { 0 }, prf_input, extra, level, disc: (site / 16) % 3, challenge })
}

pub fn run(ctx: &mut Ctx) {
    ctx.rule = "ceremonies at the WebAuthn, CTAP2 and U2F levels over all hmac-secret configurations, PRF requested or not at registration and assertion, verified/unverified users: after each ceremony the secrets (private scalar, both PRF secrets, and each 16-byte half) are read back from the store and searched in every rendering of every returned value (JSON, CBOR, raw byte fields, U2F encodings, {:?} and {:#?} of results, errors, get_info and stored passkeys) as raw bytes and inside decoded decimal lists, hex runs and base64/base64url runs at every alignment. Since rounds 7/8: store capability full / forced / non-discoverable only, non-resident CTAP2 registrations, hmac-secret-mc inputs, an imported credential with PRF secrets of 20/33/48/65 bytes evaluated under catch_unwind (panic message scanned). Non-trivial = a ceremony that produced at least one secret and one scanned artefact; distinct by case.".into();
    ctx.assumptions = vec!["the scanner is self-tested at start-up on a planted secret in every representation it claims to cover".into(), "PRF outputs (HMAC results) are not secrets; the per-credential PRF secrets and the private scalar are".into()];
    if let Err(e) = self_test() {
        eprintln!("{e}");
        std::process::exit(2);
    }
    let n = ctx.tier.pick(5_000u32, 600_000u32);
    match search(ctx, 6, n, case(), check) {
        Search::Pass => {}
        Search::Fail(c, e) => ctx.violation("ceremonies", json!(c), &e),
    }
}

pub fn replay(ctx: &mut Ctx, _stage: &str, case: &Value) -> Result<(), String> {
    let c: Case = serde_json::from_value(case.clone()).map_err(|e| format!("bad case: {e}"))?;
    check(ctx, &c)
}
