//! Process isolation for cases that may abort, overflow the stack or hang (C15, C18).
//! Parent: spawns `pkverif __worker <kind> <seed> <first> <stride> <end>` children, reads one JSON
//! line per case, attributes a death to the case that was started, restarts after it.
//! Child: regenerates case i from (seed, i), runs it on a thread with an 8 MiB stack under
//! catch_unwind with allocation and CPU accounting, and a CPU-time watchdog.

use std::io::{BufRead, BufReader, Write};
use std::process::{Command, Stdio};
use std::sync::atomic::{AtomicU64, Ordering};
use std::sync::mpsc;
use std::time::{Duration, Instant};

use serde::{Deserialize, Serialize};
use serde_json::Value;

use crate::alloc;

#[derive(Clone, Debug, Serialize, Deserialize)]
pub struct CaseReport {
    pub i: u64,
    pub class: String,
    pub ok: bool,
    pub msg: String,
    pub nontrivial: bool,
    pub key: u64,
    pub max_alloc: u64,
    pub cpu_us: u64,
    #[serde(default)]
    pub sample: Option<Value>,
}

/// outcome of running one case body inside the worker
pub struct Body {
    pub class: String,
    pub result: Result<(), String>,
    pub nontrivial: bool,
    pub key: u64,
    pub sample: Option<Value>,
}

pub const WATCHDOG_CPU_NS: u64 = 10_000_000_000;
/// prefix of the `run_one` errors that say nothing about the library (a child that stalled in wall-clock time only,
/// a worker that could not be started): inconclusive, never a verdict
pub const STALL: &str = "STALL";

/// a stalled confirmation run decides nothing: stop with the inconclusive exit status
pub fn exit_if_stalled(id: &str, msg: &str) {
    if msg.starts_with(STALL) {
        eprintln!("{id} inconclusive: {msg}");
        std::process::exit(2);
    }
}

static CASE_START_CPU: AtomicU64 = AtomicU64::new(u64::MAX);
static CASE_INDEX: AtomicU64 = AtomicU64::new(0);
static WORKER_THREAD: AtomicU64 = AtomicU64::new(0);

/// run `body` with accounting; `input_len` scales the proportionality thresholds (None = no
/// proportionality judgement)
pub fn measured(input_len: Option<usize>, body: &mut dyn FnMut() -> Body) -> (Body, u64, u64) {
    let mut best: Option<(Body, u64, u64)> = None;
    for _attempt in 0..3 {
        alloc::reset();
        let t0 = alloc::thread_cpu_ns();
        let r = std::panic::catch_unwind(std::panic::AssertUnwindSafe(&mut *body));
        let cpu = alloc::thread_cpu_ns() - t0;
        let st = alloc::get();
        let mut b = match r {
            Ok(b) => b,
            Err(_) => Body { class: "panic".into(), result: Err(format!("panicked: {}", crate::last_panic())), nontrivial: true, key: 0, sample: None },
        };
        let max_alloc = (st.max_request as u64).max(st.peak.max(0) as u64);
        if let (Some(len), true) = (input_len, b.result.is_ok()) {
            let alloc_limit = (8u64 << 20) + 256 * len as u64;
            if max_alloc > alloc_limit {
                b.result = Err(format!("memory out of proportion: largest request {} bytes, peak live {} bytes for an input of {len} bytes (limit {alloc_limit})", st.max_request, st.peak));
            }
        }
        let cpu_limit = input_len.map(|len| 250_000_000u64 + 20_000 * len as u64);
        let over_cpu = cpu_limit.is_some_and(|l| cpu > l);
        let better = best.as_ref().map_or(true, |(_, _, c)| cpu < *c);
        if better {
            best = Some((b, max_alloc, cpu));
        }
        if !over_cpu {
            break;
        }
    }
    let (mut b, max_alloc, cpu) = best.unwrap();
    if let (Some(len), true) = (input_len, b.result.is_ok()) {
        let cpu_limit = 250_000_000u64 + 20_000 * len as u64;
        if cpu > cpu_limit {
            b.result = Err(format!("processing time out of proportion: {} ms of CPU (minimum of 3 runs) for an input of {len} bytes (limit {} ms)", cpu / 1_000_000, cpu_limit / 1_000_000));
        }
    }
    (b, max_alloc, cpu)
}

/// child side: iterate cases first, first+stride, ... < end
pub fn worker_loop(first: u64, stride: u64, end: u64, run: &(dyn Fn(u64) -> (Option<usize>, Box<dyn FnMut() -> Body + Send>) + Sync)) -> i32 {
    // watchdog
    std::thread::spawn(|| loop {
        std::thread::sleep(Duration::from_millis(100));
        let start = CASE_START_CPU.load(Ordering::SeqCst);
        let th = WORKER_THREAD.load(Ordering::SeqCst);
        if start == u64::MAX || th == 0 {
            continue;
        }
        if let Some(now) = alloc::cpu_ns_of(th as libc::pthread_t) {
            if now.saturating_sub(start) > WATCHDOG_CPU_NS {
                let i = CASE_INDEX.load(Ordering::SeqCst);
                let rep = CaseReport { i, class: "watchdog".into(), ok: false, msg: format!("still running after {} s of CPU time (watchdog)", WATCHDOG_CPU_NS / 1_000_000_000), nontrivial: true, key: 0, max_alloc: 0, cpu_us: (now - start) / 1000, sample: None };
                println!("{}", serde_json::to_string(&rep).unwrap());
                let _ = std::io::stdout().flush();
                std::process::exit(3);
            }
        }
    });
    let res = std::thread::scope(|s| {
        std::thread::Builder::new()
            .stack_size(8 << 20)
            .spawn_scoped(s, || {
                WORKER_THREAD.store(unsafe { libc::pthread_self() } as u64, Ordering::SeqCst);
                let mut i = first;
                let out = std::io::stdout();
                while i < end {
                    {
                        let mut o = out.lock();
                        let _ = writeln!(o, "START {i}");
                        let _ = o.flush();
                    }
                    CASE_INDEX.store(i, Ordering::SeqCst);
                    let (len, mut body) = run(i);
                    CASE_START_CPU.store(alloc::thread_cpu_ns(), Ordering::SeqCst);
                    let (b, max_alloc, cpu) = measured(len, &mut *body);
                    CASE_START_CPU.store(u64::MAX, Ordering::SeqCst);
                    let rep = CaseReport { i, class: b.class, ok: b.result.is_ok(), msg: b.result.err().unwrap_or_default(), nontrivial: b.nontrivial, key: b.key, max_alloc, cpu_us: cpu / 1000, sample: b.sample };
                    let mut o = out.lock();
                    let _ = writeln!(o, "{}", serde_json::to_string(&rep).unwrap());
                    let _ = o.flush();
                    i += stride;
                }
            })
            .unwrap()
            .join()
    });
    match res {
        Ok(()) => 0,
        Err(_) => 4,
    }
}

pub struct Outcome {
    pub reports: Vec<CaseReport>,
    /// cases during which the worker process died: (index, how)
    pub deaths: Vec<(u64, String)>,
    pub inconclusive: Option<String>,
}

fn exe() -> std::path::PathBuf {
    // the running image itself: stays valid when the file on disk is replaced by a rebuild during the run
    let p = std::path::PathBuf::from("/proc/self/exe");
    if p.exists() {
        p
    } else {
        std::env::current_exe().expect("current_exe")
    }
}

/// parent side: run cases 0..total over `workers` children
pub fn run_cases(kind: &str, seed: u64, total: u64, workers: u64) -> Outcome {
    let workers = workers.min(total.max(1));
    let stop = std::sync::Arc::new(std::sync::atomic::AtomicBool::new(false));
    let pids = std::sync::Arc::new(std::sync::Mutex::new(Vec::<u32>::new()));
    let (tx, rx) = mpsc::channel::<(u64, Result<String, String>)>();
    let mut handles = vec![];
    for w in 0..workers {
        let tx = tx.clone();
        let kind = kind.to_string();
        let stop = stop.clone();
        let pids = pids.clone();
        handles.push(std::thread::spawn(move || {
            let mut first = w;
            loop {
                if first >= total || stop.load(Ordering::SeqCst) {
                    break;
                }
                let mut child = match Command::new(exe()).args(["__worker", &kind, &seed.to_string(), &first.to_string(), &workers.to_string(), &total.to_string()]).stdout(Stdio::piped()).stderr(Stdio::null()).spawn() {
                    Ok(c) => c,
                    Err(e) => {
                        let _ = tx.send((w, Err(format!("cannot spawn worker: {e}"))));
                        return;
                    }
                };
                pids.lock().unwrap().push(child.id());
                let stdout = child.stdout.take().unwrap();
                let mut started: Option<u64> = None;
                let mut finished: Option<u64> = None;
                for line in BufReader::new(stdout).lines() {
                    let Ok(line) = line else { break };
                    if let Some(n) = line.strip_prefix("START ") {
                        started = n.trim().parse().ok();
                    } else if line.starts_with('{') {
                        if let Ok(rep) = serde_json::from_str::<CaseReport>(&line) {
                            finished = Some(rep.i);
                        }
                        let _ = tx.send((w, Ok(line)));
                    }
                }
                let status = child.wait();
                // the child is gone: its pid must not be signalled later (it may be reused by then)
                pids.lock().unwrap().retain(|p| *p != child.id());
                let clean = matches!(&status, Ok(s) if s.success());
                if clean || stop.load(Ordering::SeqCst) {
                    break;
                }
                // died: attribute to the started, unfinished case
                let how = match &status {
                    Ok(s) => {
                        use std::os::unix::process::ExitStatusExt;
                        match (s.signal(), s.code()) {
                            (Some(sig), _) => format!("killed by signal {sig}"),
                            (_, Some(c)) => format!("exit status {c}"),
                            _ => "unknown".into(),
                        }
                    }
                    Err(e) => format!("wait failed: {e}"),
                };
                match started {
                    Some(i) if finished != Some(i) => {
                        if how != "exit status 3" {
                            let _ = tx.send((w, Ok(format!("DEATH {i} {how}"))));
                        }
                        first = i + workers;
                    }
                    Some(i) => {
                        // watchdog exit (report already sent) or death between cases
                        first = i + workers;
                    }
                    None => {
                        let _ = tx.send((w, Err(format!("worker died before starting a case: {how}"))));
                        return;
                    }
                }
            }
        }));
    }
    drop(tx);
    let mut out = Outcome { reports: vec![], deaths: vec![], inconclusive: None };
    let deadline = Instant::now() + Duration::from_secs(3 * 3600);
    let mut failures = 0usize;
    loop {
        match rx.recv_timeout(Duration::from_secs(120)) {
            Ok((_, Ok(line))) => {
                if let Some(rest) = line.strip_prefix("DEATH ") {
                    let mut it = rest.splitn(2, ' ');
                    let i: u64 = it.next().unwrap_or("0").parse().unwrap_or(0);
                    out.deaths.push((i, it.next().unwrap_or("").to_string()));
                    failures += 1;
                } else if let Ok(rep) = serde_json::from_str::<CaseReport>(&line) {
                    if !rep.ok {
                        failures += 1;
                    }
                    out.reports.push(rep);
                }
                // enough failing cases collected: stop the campaign early (each hang costs a watchdog period)
                if failures >= 12 && !stop.swap(true, Ordering::SeqCst) {
                    for pid in pids.lock().unwrap().iter() {
                        unsafe {
                            libc::kill(*pid as i32, libc::SIGKILL);
                        }
                    }
                }
            }
            Ok((_, Err(e))) => {
                out.inconclusive = Some(e);
            }
            Err(mpsc::RecvTimeoutError::Timeout) => {
                out.inconclusive = Some("no worker made progress for 120 s of wall-clock time".into());
                break;
            }
            Err(mpsc::RecvTimeoutError::Disconnected) => break,
        }
        if Instant::now() > deadline {
            out.inconclusive = Some("overall deadline reached".into());
            break;
        }
    }
    for h in handles {
        let _ = h.join();
    }
    out
}

/// run a single described case in a child (`__worker <kind>one <json>`); returns the report or
/// how the child died
pub fn run_one(kind: &str, case_json: &str) -> Result<CaseReport, String> {
    // the case goes through stdin: a mutated input of some tens of kilobytes does not fit on a command line
    let mut child = Command::new(exe()).args(["__worker", &format!("{kind}one"), "-"]).stdin(Stdio::piped()).stdout(Stdio::piped()).stderr(Stdio::null()).spawn().map_err(|e| format!("{STALL}: cannot start a worker process: {e}"))?;
    if let Some(mut stdin) = child.stdin.take() {
        let _ = stdin.write_all(case_json.as_bytes());
    }
    // bounded wait: a child that neither finishes nor dies within 60 s is killed
    let t0 = Instant::now();
    loop {
        match child.try_wait() {
            Ok(Some(_)) => break,
            Ok(None) if t0.elapsed() > Duration::from_secs(60) => {
                let _ = child.kill();
                let _ = child.wait();
                return Err(format!("{STALL}: process still running after 60 s of wall-clock time without using up its CPU budget (killed)"));
            }
            Ok(None) => std::thread::sleep(Duration::from_millis(2)),
            Err(e) => return Err(format!("wait: {e}")),
        }
    }
    let out = child.wait_with_output().map_err(|e| format!("wait: {e}"))?;
    let text = String::from_utf8_lossy(&out.stdout);
    for line in text.lines() {
        if line.starts_with('{') {
            if let Ok(r) = serde_json::from_str::<CaseReport>(line) {
                return Ok(r);
            }
        }
    }
    use std::os::unix::process::ExitStatusExt;
    Err(match (out.status.signal(), out.status.code()) {
        (Some(s), _) => format!("process killed by signal {s}"),
        (_, Some(c)) => format!("process exited with status {c}"),
        _ => "process died".into(),
    })
}

/// like `run_one`, but a child that died is started once more before its death is believed: a process killed from
/// outside (OOM killer, an operator) does not die again, a case that kills its process does
pub fn run_one_confirmed(kind: &str, case_json: &str) -> Result<CaseReport, String> {
    match run_one(kind, case_json) {
        Err(how) if !how.starts_with(STALL) => run_one(kind, case_json),
        other => other,
    }
}

/// child side of run_one: the case description is the argument itself, or "-" for "read it from stdin"
pub fn one_arg(arg: &str) -> String {
    if arg == "-" {
        let mut s = String::new();
        let _ = std::io::Read::read_to_string(&mut std::io::stdin(), &mut s);
        s
    } else {
        arg.to_string()
    }
}

/// child side of run_one
pub fn worker_one(len: Option<usize>, mut body: Box<dyn FnMut() -> Body + Send>) -> i32 {
    std::thread::spawn(|| loop {
        std::thread::sleep(Duration::from_millis(100));
        let start = CASE_START_CPU.load(Ordering::SeqCst);
        let th = WORKER_THREAD.load(Ordering::SeqCst);
        if start == u64::MAX || th == 0 {
            continue;
        }
        if let Some(now) = alloc::cpu_ns_of(th as libc::pthread_t) {
            if now.saturating_sub(start) > WATCHDOG_CPU_NS {
                let rep = CaseReport { i: 0, class: "watchdog".into(), ok: false, msg: format!("still running after {} s of CPU time (watchdog)", WATCHDOG_CPU_NS / 1_000_000_000), nontrivial: true, key: 0, max_alloc: 0, cpu_us: (now - start) / 1000, sample: None };
                println!("{}", serde_json::to_string(&rep).unwrap());
                let _ = std::io::stdout().flush();
                std::process::exit(3);
            }
        }
    });
    let r = std::thread::Builder::new()
        .stack_size(8 << 20)
        .spawn(move || {
            WORKER_THREAD.store(unsafe { libc::pthread_self() } as u64, Ordering::SeqCst);
            CASE_START_CPU.store(alloc::thread_cpu_ns(), Ordering::SeqCst);
            let (b, max_alloc, cpu) = measured(len, &mut *body);
            CASE_START_CPU.store(u64::MAX, Ordering::SeqCst);
            let rep = CaseReport { i: 0, class: b.class, ok: b.result.is_ok(), msg: b.result.err().unwrap_or_default(), nontrivial: b.nontrivial, key: b.key, max_alloc, cpu_us: cpu / 1000, sample: None };
            println!("{}", serde_json::to_string(&rep).unwrap());
            let _ = std::io::stdout().flush();
        })
        .unwrap()
        .join();
    if r.is_ok() {
        0
    } else {
        4
    }
}
