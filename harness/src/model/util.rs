//! Independent helpers used by oracles: base64url, HMAC built from SHA-256, COSE key access,
//! ECDSA verification, passkey snapshots.

use ciborium::value::Value as Cbor;
use coset::{CoseKey, Label};
use p256::ecdsa::signature::Verifier;
use p256::ecdsa::{Signature, VerifyingKey};
use p256::elliptic_curve::sec1::FromEncodedPoint;
use p256::EncodedPoint;
use passkey_types::Passkey;
use serde::{Deserialize, Serialize};
use sha2::{Digest, Sha256};

pub fn sha256(data: &[u8]) -> [u8; 32] {
    Sha256::digest(data).into()
}

/// HMAC-SHA-256 from the definition (RFC 2104), not from the hmac crate.
pub fn hmac_sha256(key: &[u8], data: &[u8]) -> [u8; 32] {
    let mut k = [0u8; 64];
    if key.len() > 64 {
        k[..32].copy_from_slice(&sha256(key));
    } else {
        k[..key.len()].copy_from_slice(key);
    }
    let mut ipad = [0x36u8; 64];
    let mut opad = [0x5cu8; 64];
    for i in 0..64 {
        ipad[i] ^= k[i];
        opad[i] ^= k[i];
    }
    let mut h = Sha256::new();
    h.update(ipad);
    h.update(data);
    let inner: [u8; 32] = h.finalize().into();
    let mut h = Sha256::new();
    h.update(opad);
    h.update(inner);
    h.finalize().into()
}

const B64URL: &[u8; 64] = b"ABCDEFGHIJKLMNOPQRSTUVWXYZabcdefghijklmnopqrstuvwxyz0123456789-_";
const B64STD: &[u8; 64] = b"ABCDEFGHIJKLMNOPQRSTUVWXYZabcdefghijklmnopqrstuvwxyz0123456789+/";

fn b64_with(alpha: &[u8; 64], data: &[u8], pad: bool) -> String {
    let mut out = String::with_capacity(data.len() * 4 / 3 + 4);
    for chunk in data.chunks(3) {
        let b = [chunk[0], *chunk.get(1).unwrap_or(&0), *chunk.get(2).unwrap_or(&0)];
        let n = ((b[0] as u32) << 16) | ((b[1] as u32) << 8) | b[2] as u32;
        out.push(alpha[(n >> 18) as usize & 63] as char);
        out.push(alpha[(n >> 12) as usize & 63] as char);
        if chunk.len() > 1 {
            out.push(alpha[(n >> 6) as usize & 63] as char);
        } else if pad {
            out.push('=');
        }
        if chunk.len() > 2 {
            out.push(alpha[n as usize & 63] as char);
        } else if pad {
            out.push('=');
        }
    }
    out
}

/// unpadded base64url
pub fn b64url(data: &[u8]) -> String {
    b64_with(B64URL, data, false)
}
pub fn b64url_padded(data: &[u8]) -> String {
    b64_with(B64URL, data, true)
}
pub fn b64std(data: &[u8]) -> String {
    b64_with(B64STD, data, false)
}
pub fn b64std_padded(data: &[u8]) -> String {
    b64_with(B64STD, data, true)
}

/// strict unpadded base64url decoder (harness side)
pub fn b64url_decode(s: &str) -> Option<Vec<u8>> {
    let mut out = Vec::with_capacity(s.len() * 3 / 4);
    let mut acc = 0u32;
    let mut bits = 0;
    for c in s.bytes() {
        let v = B64URL.iter().position(|x| *x == c)? as u32;
        acc = (acc << 6) | v;
        bits += 6;
        if bits >= 8 {
            bits -= 8;
            out.push((acc >> bits) as u8);
            acc &= (1 << bits) - 1;
        }
    }
    if s.len() % 4 == 1 {
        return None;
    }
    Some(out)
}

pub fn cose_param<'a>(key: &'a CoseKey, label: i64) -> Option<&'a Cbor> {
    key.params.iter().find_map(|(k, v)| if *k == Label::Int(label) { Some(v) } else { None })
}

pub fn cose_bytes(key: &CoseKey, label: i64) -> Option<Vec<u8>> {
    cose_param(key, label).and_then(|v| v.as_bytes()).cloned()
}

/// private scalar of a stored credential key
pub fn private_scalar(pk: &Passkey) -> Option<Vec<u8>> {
    cose_bytes(&pk.key, -4)
}

/// the public point belonging to a private scalar
pub fn public_from_scalar(d: &[u8]) -> Option<(Vec<u8>, Vec<u8>)> {
    let sk = p256::SecretKey::from_slice(d).ok()?;
    let p = sk.public_key();
    use p256::elliptic_curve::sec1::ToEncodedPoint;
    let ep = p.to_encoded_point(false);
    Some((ep.x()?.to_vec(), ep.y()?.to_vec()))
}

pub fn verifying_key(x: &[u8], y: &[u8]) -> Option<VerifyingKey> {
    if x.len() != 32 || y.len() != 32 {
        return None;
    }
    let ep = EncodedPoint::from_affine_coordinates(x.into(), y.into(), false);
    let pk: Option<p256::PublicKey> = p256::PublicKey::from_encoded_point(&ep).into();
    pk.map(VerifyingKey::from)
}

/// verify an ECDSA P-256/SHA-256 signature given in DER
pub fn verify_der(x: &[u8], y: &[u8], msg: &[u8], sig_der: &[u8]) -> Result<(), String> {
    let vk = verifying_key(x, y).ok_or("public key is not a valid P-256 point")?;
    let sig = Signature::from_der(sig_der).map_err(|e| format!("signature is not DER: {e}"))?;
    vk.verify(msg, &sig).map_err(|_| "signature does not verify".to_string())
}

/// verify a signature given either in DER or as fixed r||s
pub fn verify_any(x: &[u8], y: &[u8], msg: &[u8], sig: &[u8]) -> Result<&'static str, String> {
    let vk = verifying_key(x, y).ok_or("public key is not a valid P-256 point")?;
    if let Ok(s) = Signature::from_der(sig) {
        if vk.verify(msg, &s).is_ok() {
            return Ok("der");
        }
    }
    if let Ok(s) = Signature::from_slice(sig) {
        if vk.verify(msg, &s).is_ok() {
            return Ok("raw");
        }
    }
    Err("signature does not verify (neither as DER nor as r||s)".into())
}

/// Parse a SubjectPublicKeyInfo DER of a P-256 key into its coordinates.
pub fn spki_point(der: &[u8]) -> Option<(Vec<u8>, Vec<u8>)> {
    use p256::pkcs8::DecodePublicKey;
    let pk = p256::PublicKey::from_public_key_der(der).ok()?;
    use p256::elliptic_curve::sec1::ToEncodedPoint;
    let ep = pk.to_encoded_point(false);
    Some((ep.x()?.to_vec(), ep.y()?.to_vec()))
}

/// Comparable snapshot of a stored credential
#[derive(Clone, Debug, PartialEq, Eq, Hash, Serialize, Deserialize)]
pub struct PkSnap {
    pub id: Vec<u8>,
    pub rp_id: String,
    pub user_handle: Option<Vec<u8>>,
    pub counter: Option<u32>,
    pub d: Option<Vec<u8>>,
    pub x: Option<Vec<u8>>,
    pub y: Option<Vec<u8>>,
    pub hmac_uv: Option<Vec<u8>>,
    pub hmac_no_uv: Option<Vec<u8>>,
}

pub fn snap(pk: &Passkey) -> PkSnap {
    PkSnap {
        id: pk.credential_id.to_vec(),
        rp_id: pk.rp_id.clone(),
        user_handle: pk.user_handle.as_ref().map(|b| b.to_vec()),
        counter: pk.counter,
        d: cose_bytes(&pk.key, -4),
        x: cose_bytes(&pk.key, -2),
        y: cose_bytes(&pk.key, -3),
        hmac_uv: pk.extensions.hmac_secret.as_ref().map(|h| h.cred_with_uv.clone()),
        hmac_no_uv: pk.extensions.hmac_secret.as_ref().and_then(|h| h.cred_without_uv.clone()),
    }
}

/// A stored record is "complete": has id, RP ID, and a private scalar matching its public point.
pub fn is_complete_record(s: &PkSnap) -> Result<(), String> {
    let d = s.d.as_ref().ok_or("stored key has no private scalar")?;
    let (x, y) = public_from_scalar(d).ok_or("stored private scalar is not a valid P-256 scalar")?;
    if s.x.as_deref() != Some(&x[..]) || s.y.as_deref() != Some(&y[..]) {
        return Err("stored public coordinates do not belong to the stored private scalar".into());
    }
    Ok(())
}

/// Build a passkey with a fresh key pair (deterministic from `seed_bytes`), for populating stores.
pub fn make_passkey(seed: u64, rp_id: &str, id: &[u8], user_handle: Option<&[u8]>, counter: Option<u32>, hmac: Option<(Vec<u8>, Option<Vec<u8>>)>) -> Passkey {
    // derive a valid scalar from the seed
    let mut ctr = 0u32;
    let sk = loop {
        let mut h = Sha256::new();
        h.update(b"pkverif-key");
        h.update(seed.to_be_bytes());
        h.update(ctr.to_be_bytes());
        let d: [u8; 32] = h.finalize().into();
        if let Ok(sk) = p256::SecretKey::from_slice(&d) {
            break sk;
        }
        ctr += 1;
    };
    use p256::elliptic_curve::sec1::ToEncodedPoint;
    let ep = sk.public_key().to_encoded_point(false);
    let key = coset::CoseKeyBuilder::new_ec2_priv_key(coset::iana::EllipticCurve::P_256, ep.x().unwrap().to_vec(), ep.y().unwrap().to_vec(), sk.to_bytes().to_vec())
        .algorithm(coset::iana::Algorithm::ES256)
        .build();
    Passkey {
        key,
        credential_id: id.to_vec().into(),
        rp_id: rp_id.to_string(),
        user_handle: user_handle.map(|u| u.to_vec().into()),
        counter,
        extensions: passkey_types::CredentialExtensions {
            hmac_secret: hmac.map(|(a, b)| passkey_types::StoredHmacSecret { cred_with_uv: a, cred_without_uv: b }),
        },
    }
}

/// Seeds (for `make_passkey`) whose private scalar starts with a zero byte, found once by search.
pub fn short_scalar_seeds() -> &'static [u64; 4] {
    static SEEDS: std::sync::OnceLock<[u64; 4]> = std::sync::OnceLock::new();
    SEEDS.get_or_init(|| {
        let mut out = [0u64; 4];
        let mut n = 0;
        let mut seed = 9_000_000u64;
        while n < 4 {
            let pk = make_passkey(seed, "x", b"x", None, None, None);
            if snap(&pk).d.is_some_and(|d| d.first() == Some(&0)) {
                out[n] = seed;
                n += 1;
            }
            seed += 1;
        }
        out
    })
}

/// Rewrite the private scalar of the key as a minimal-length integer (leading zero octets dropped), the way some
/// encoders write it. Returns the new length.
pub fn trim_scalar(pk: &mut Passkey) -> usize {
    let mut len = 0;
    for (l, v) in pk.key.params.iter_mut() {
        if *l == coset::Label::Int(-4) {
            if let ciborium::value::Value::Bytes(b) = v {
                while b.len() > 1 && b[0] == 0 {
                    b.remove(0);
                }
                len = b.len();
            }
        }
    }
    len
}
