pub mod psl;
