pub mod authdata;
pub mod psl;
pub mod rpid;
pub mod selftest;
pub mod util;
