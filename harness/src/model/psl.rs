//! Reference implementation of the publicsuffix.org algorithm over the shipped .dat file.
//! Independent of the compiled table in public-suffix/src/tld_list.rs.

use std::collections::HashMap;

#[derive(Clone, Copy, PartialEq, Eq, Debug)]
pub enum RuleKind {
    Normal,
    Wildcard,
    Exception,
}

#[derive(Clone, Debug)]
pub struct Rule {
    /// ASCII (A-label) form without the `!` / `*.` marker
    pub name: String,
    /// as written in the file (Unicode), without marker
    pub unicode: String,
    pub kind: RuleKind,
}

pub struct Psl {
    pub rules: Vec<Rule>,
    /// name -> kinds present
    map: HashMap<String, (bool, bool, bool)>, // (normal, wildcard-parent, exception)
}

/// what prevailed for a lookup
#[derive(Clone, Copy, PartialEq, Eq, Debug)]
pub enum Prevailing {
    Implicit,
    Normal,
    Wildcard,
    Exception,
}

impl Psl {
    pub fn load() -> Result<Self, String> {
        let p = crate::core::repo().join("public-suffix/public_suffix_list.dat");
        let text = std::fs::read_to_string(&p).map_err(|e| format!("{}: {e}", p.display()))?;
        Ok(Self::parse(&text))
    }

    pub fn parse(text: &str) -> Self {
        let mut rules = vec![];
        for line in text.lines() {
            let line = line.trim();
            if line.is_empty() || line.starts_with("//") {
                continue;
            }
            let tok = line.split_whitespace().next().unwrap();
            let (kind, body) = if let Some(b) = tok.strip_prefix('!') {
                (RuleKind::Exception, b)
            } else if let Some(b) = tok.strip_prefix("*.") {
                (RuleKind::Wildcard, b)
            } else {
                (RuleKind::Normal, tok)
            };
            let ascii = match idna::domain_to_ascii(body) {
                Ok(a) => a,
                Err(_) => continue,
            };
            rules.push(Rule { name: ascii, unicode: body.to_string(), kind });
        }
        Self::from_rules(rules)
    }

    pub fn from_rules(rules: Vec<Rule>) -> Self {
        let mut map: HashMap<String, (bool, bool, bool)> = HashMap::new();
        for r in &rules {
            let e = map.entry(r.name.clone()).or_insert((false, false, false));
            match r.kind {
                RuleKind::Normal => e.0 = true,
                RuleKind::Wildcard => e.1 = true,
                RuleKind::Exception => e.2 = true,
            }
        }
        Psl { rules, map }
    }

    /// Number of labels of the public suffix of `domain` (canonical name without empty labels),
    /// and which kind of rule prevailed.
    pub fn suffix_labels(&self, domain: &str) -> (usize, Prevailing) {
        let labels: Vec<&str> = domain.split('.').collect();
        let n = labels.len();
        // byte offsets of label starts
        let mut starts = Vec::with_capacity(n);
        let mut off = 0;
        for l in &labels {
            starts.push(off);
            off += l.len() + 1;
        }
        let mut best: Option<(usize, Prevailing)> = None; // labels matched
        for i in 0..n {
            let tail = &domain[starts[i]..];
            if let Some(&(normal, _wild, exc)) = self.map.get(tail) {
                if exc {
                    // exception rule prevails over everything: suffix is the rule minus its first label
                    return (n - i - 1, Prevailing::Exception);
                }
                if normal {
                    let m = n - i;
                    if best.map_or(true, |(b, _)| m > b) {
                        best = Some((m, Prevailing::Normal));
                    }
                }
            }
            // wildcard: "*.<tail after this label>" matches labels i..n
            if i + 1 < n {
                let parent = &domain[starts[i + 1]..];
                if let Some(&(_, wild, _)) = self.map.get(parent) {
                    if wild {
                        let m = n - i;
                        if best.map_or(true, |(b, _)| m > b) {
                            best = Some((m, Prevailing::Wildcard));
                        }
                    }
                }
            }
        }
        best.unwrap_or((1, Prevailing::Implicit))
    }

    /// public suffix of a canonical domain
    pub fn public_suffix<'a>(&self, domain: &'a str) -> (&'a str, Prevailing) {
        let (k, p) = self.suffix_labels(domain);
        (last_labels(domain, k), p)
    }

    /// eTLD+1 of a canonical domain, None if the domain is itself a public suffix
    pub fn etld_plus_one<'a>(&self, domain: &'a str) -> Option<&'a str> {
        let (k, _) = self.suffix_labels(domain);
        let n = domain.split('.').count();
        if n <= k {
            None
        } else {
            Some(last_labels(domain, k + 1))
        }
    }

    /// Is `name` (ASCII, no empty labels) a registrable domain or a subdomain of one, i.e.
    /// not a public suffix?
    pub fn is_registrable(&self, name: &str) -> bool {
        if name.is_empty() || name.split('.').any(|l| l.is_empty()) {
            return false;
        }
        self.etld_plus_one(name).is_some()
    }
}

/// the last k labels of a dotted name (k >= 1; whole name if it has fewer)
pub fn last_labels(domain: &str, k: usize) -> &str {
    let mut idx = domain.len();
    let mut seen = 0;
    for (i, b) in domain.bytes().enumerate().rev() {
        if b == b'.' {
            seen += 1;
            if seen == k {
                idx = i + 1;
                return &domain[idx..];
            }
        }
    }
    let _ = idx;
    domain
}

/// Is `sub` a suffix of `whole` cut at a label boundary (whole string, or preceded by '.')?
pub fn is_label_suffix(whole: &str, sub: &str) -> bool {
    match whole.strip_suffix(sub) {
        Some(prefix) => prefix.is_empty() || prefix.ends_with('.'),
        None => false,
    }
}
