//! Independent decoder of the WebAuthn authenticator data layout (fixed offsets; generic CBOR
//! for the credential public key and the extension map).

use ciborium::value::Value as Cbor;

pub const UP: u8 = 0x01;
pub const UV: u8 = 0x04;
pub const BE: u8 = 0x08;
pub const BS: u8 = 0x10;
pub const AT: u8 = 0x40;
pub const ED: u8 = 0x80;
pub const RESERVED: u8 = 0x02 | 0x20;

#[derive(Debug, Clone, PartialEq)]
pub struct AttView {
    pub aaguid: [u8; 16],
    pub cred_id: Vec<u8>,
    pub key: Cbor,
    /// raw bytes of the COSE key
    pub key_raw: Vec<u8>,
}

#[derive(Debug, Clone, PartialEq)]
pub struct AdView {
    pub rp_id_hash: [u8; 32],
    pub flags: u8,
    pub counter: u32,
    pub att: Option<AttView>,
    pub ext: Option<Cbor>,
    pub ext_raw: Vec<u8>,
    /// bytes after the last section
    pub trailing: usize,
}

/// read one CBOR item from the front of `b`, returning it and the number of bytes consumed
pub fn cbor_item(b: &[u8]) -> Result<(Cbor, usize), String> {
    let mut r: &[u8] = b;
    let v: Cbor = ciborium::de::from_reader(&mut r).map_err(|e| format!("cbor: {e}"))?;
    Ok((v, b.len() - r.len()))
}

pub fn decode(b: &[u8]) -> Result<AdView, String> {
    if b.len() < 37 {
        return Err(format!("authenticator data of {} bytes is shorter than 37", b.len()));
    }
    let rp_id_hash: [u8; 32] = b[..32].try_into().unwrap();
    let flags = b[32];
    let counter = u32::from_be_bytes(b[33..37].try_into().unwrap());
    let mut off = 37;
    let att = if flags & AT != 0 {
        if b.len() < off + 18 {
            return Err("AT set but attested credential data header truncated".into());
        }
        let aaguid: [u8; 16] = b[off..off + 16].try_into().unwrap();
        let len = u16::from_be_bytes([b[off + 16], b[off + 17]]) as usize;
        off += 18;
        if b.len() < off + len {
            return Err("AT set but credential id truncated".into());
        }
        let cred_id = b[off..off + len].to_vec();
        off += len;
        let (key, used) = cbor_item(&b[off..]).map_err(|e| format!("credential public key: {e}"))?;
        let key_raw = b[off..off + used].to_vec();
        off += used;
        Some(AttView { aaguid, cred_id, key, key_raw })
    } else {
        None
    };
    let (ext, ext_raw) = if flags & ED != 0 {
        let (v, used) = cbor_item(&b[off..]).map_err(|e| format!("extensions: {e}"))?;
        let raw = b[off..off + used].to_vec();
        off += used;
        (Some(v), raw)
    } else {
        (None, vec![])
    };
    Ok(AdView { rp_id_hash, flags, counter, att, ext, ext_raw, trailing: b.len() - off })
}

/// look up an integer-keyed entry of a CBOR map
pub fn map_get_int(m: &Cbor, key: i64) -> Option<&Cbor> {
    m.as_map()?.iter().find_map(|(k, v)| match k.as_integer() {
        Some(i) if i128::from(i) == key as i128 => Some(v),
        _ => None,
    })
}

pub fn map_get_text<'a>(m: &'a Cbor, key: &str) -> Option<&'a Cbor> {
    m.as_map()?.iter().find_map(|(k, v)| if k.as_text() == Some(key) { Some(v) } else { None })
}

/// Checks on a COSE_Key that must be a public ES256 / P-256 key; returns (x, y).
pub fn public_es256_key(key: &Cbor) -> Result<(Vec<u8>, Vec<u8>), String> {
    let m = key.as_map().ok_or("COSE key is not a map")?;
    let mut seen = vec![];
    for (k, _) in m {
        let i = k.as_integer().ok_or("COSE key label is not an integer")?;
        seen.push(i128::from(i));
    }
    let allowed = [1i128, 3, -1, -2, -3];
    for l in &seen {
        if !allowed.contains(l) {
            return Err(format!("COSE public key carries label {l} (only kty/alg/crv/x/y are public parameters)"));
        }
    }
    let int = |k: i64| map_get_int(key, k).and_then(|v| v.as_integer()).map(i128::from);
    if int(1) != Some(2) {
        return Err("kty is not EC2".into());
    }
    if int(3) != Some(-7) {
        return Err("alg is not ES256 (-7)".into());
    }
    if int(-1) != Some(1) {
        return Err("crv is not P-256".into());
    }
    let x = map_get_int(key, -2).and_then(|v| v.as_bytes()).ok_or("x missing")?.clone();
    let y = map_get_int(key, -3).and_then(|v| v.as_bytes()).ok_or("y missing")?.clone();
    if x.len() != 32 || y.len() != 32 {
        return Err("coordinates are not 32 bytes".into());
    }
    Ok((x, y))
}
