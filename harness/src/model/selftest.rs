//! Known-answer self-tests of the reference models (a broken oracle must show as exit 2, never as a verdict).

use super::psl::Psl;
use super::util::{b64std_padded, b64url, b64url_decode, hmac_sha256, sha256};
use crate::core::{hex, unhex};

pub fn crypto() -> Result<(), String> {
    // FIPS 180-2
    if hex(&sha256(b"abc")) != "ba7816bf8f01cfea414140de5dae2223b00361a396177a9cb410ff61f20015ad" {
        return Err("sha256 known answer".into());
    }
    // RFC 4231 test cases 1, 2 and 6 (key longer than the block size)
    let cases: [(&str, &str, &str); 3] = [
        ("0b0b0b0b0b0b0b0b0b0b0b0b0b0b0b0b0b0b0b0b", "4869205468657265", "b0344c61d8db38535ca8afceaf0bf12b881dc200c9833da726e9376c2e32cff7"),
        ("4a656665", "7768617420646f2079612077616e7420666f72206e6f7468696e673f", "5bdcc146bf60754e6a042426089575c75a003f089d2739839dec58b964ec3843"),
        (
            &"aa".repeat(131),
            "54657374205573696e67204c6172676572205468616e20426c6f636b2d53697a65204b6579202d2048617368204b6579204669727374",
            "60e431591ee0b67f0d8a26aacbf5b77f8e0bc6213728c5140546040f0ee37f54",
        ),
    ];
    for (k, d, want) in cases {
        if hex(&hmac_sha256(&unhex(k), &unhex(d))) != want {
            return Err(format!("hmac-sha-256 known answer (key {} bytes)", k.len() / 2));
        }
    }
    // RFC 4648 vectors
    for (plain, enc) in [("", ""), ("f", "Zg"), ("fo", "Zm8"), ("foo", "Zm9v"), ("foob", "Zm9vYg"), ("fooba", "Zm9vYmE"), ("foobar", "Zm9vYmFy")] {
        if b64url(plain.as_bytes()) != enc || b64url_decode(enc).as_deref() != Some(plain.as_bytes()) {
            return Err(format!("base64url known answer {plain:?}"));
        }
    }
    if b64std_padded(&[0xfb, 0xff, 0xfe]) != "+//+" || b64url(&[0xfb, 0xff, 0xfe]) != "-__-" || b64std_padded(b"f") != "Zg==" {
        return Err("base64 alphabets".into());
    }
    Ok(())
}

/// the publicsuffix.org checkPublicSuffix vectors that only depend on long-lived rules
pub fn psl(psl: &Psl) -> Result<(), String> {
    let cases: [(&str, Option<&str>); 24] = [
        ("com", None),
        ("example.com", Some("example.com")),
        ("www.example.com", Some("example.com")),
        ("uk.com", None),
        ("example.uk.com", Some("example.uk.com")),
        ("b.example.uk.com", Some("example.uk.com")),
        ("jp", None),
        ("test.jp", Some("test.jp")),
        ("ac.jp", None),
        ("test.ac.jp", Some("test.ac.jp")),
        ("kyoto.jp", None),
        ("ide.kyoto.jp", None),
        ("a.b.ide.kyoto.jp", Some("b.ide.kyoto.jp")),
        ("c.kobe.jp", None),
        ("b.c.kobe.jp", Some("b.c.kobe.jp")),
        ("a.b.c.kobe.jp", Some("b.c.kobe.jp")),
        ("city.kobe.jp", Some("city.kobe.jp")),
        ("www.city.kobe.jp", Some("city.kobe.jp")),
        ("ck", None),
        ("test.ck", None),
        ("b.test.ck", Some("b.test.ck")),
        ("www.ck", Some("www.ck")),
        ("www.www.ck", Some("www.ck")),
        ("xn--55qx5d.cn", None),
    ];
    for (d, want) in cases {
        if psl.etld_plus_one(d) != want {
            return Err(format!("PSL reference: registrable domain of {d:?} is {:?}, the published test vectors say {want:?}", psl.etld_plus_one(d)));
        }
    }
    Ok(())
}
