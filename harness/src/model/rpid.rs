//! Reference predicate for C01, written from the property statement.

use public_suffix::{EffectiveTLDProvider, Error as PslError};
use serde::{Deserialize, Serialize};

use super::psl::{last_labels, Psl, Rule, RuleKind};

/// Suffix providers the harness can plug into the verifier.
#[derive(Clone, Debug, Serialize, Deserialize, PartialEq, Eq, Hash)]
pub enum ProviderKind {
    /// the crate's compiled list
    Default,
    /// a custom provider over a small generated rule set ("com", "*.ck", "!www.ck" syntax)
    RuleSet(Vec<String>),
    /// always errors (like the suite's BrokenTLDProvider)
    AlwaysErr,
    /// accepts every name without empty labels that has at least two labels
    TwoLabels,
    /// always errors, with the k-th error value of the provider interface (cannot derive / empty label / invalid suffix)
    Failing(u8),
}

pub struct HProvider {
    pub kind: ProviderKind,
    custom: Option<Psl>,
}

impl HProvider {
    pub fn new(kind: ProviderKind) -> Self {
        let custom = match &kind {
            ProviderKind::RuleSet(rules) => Some(Psl::from_rules(
                rules
                    .iter()
                    .map(|r| {
                        let (k, body) = if let Some(b) = r.strip_prefix('!') {
                            (RuleKind::Exception, b)
                        } else if let Some(b) = r.strip_prefix("*.") {
                            (RuleKind::Wildcard, b)
                        } else {
                            (RuleKind::Normal, r.as_str())
                        };
                        Rule { name: body.to_string(), unicode: body.to_string(), kind: k }
                    })
                    .collect(),
            )),
            _ => None,
        };
        HProvider { kind, custom }
    }
}

impl EffectiveTLDProvider for HProvider {
    fn effective_tld_plus_one<'a>(&self, domain: &'a str) -> Result<&'a str, PslError> {
        match &self.kind {
            ProviderKind::Default => public_suffix::DEFAULT_PROVIDER.effective_tld_plus_one(domain),
            ProviderKind::AlwaysErr => Err(PslError::CannotDeriveETldPlus1),
            ProviderKind::Failing(k) => Err(match k % 3 {
                0 => PslError::CannotDeriveETldPlus1,
                1 => PslError::EmptyLabel,
                _ => PslError::InvalidPublicSuffix,
            }),
            ProviderKind::TwoLabels => {
                if domain.is_empty() || domain.split('.').any(|l| l.is_empty()) {
                    Err(PslError::EmptyLabel)
                } else if domain.split('.').count() < 2 {
                    Err(PslError::CannotDeriveETldPlus1)
                } else {
                    Ok(last_labels(domain, 2))
                }
            }
            ProviderKind::RuleSet(_) => {
                let psl = self.custom.as_ref().unwrap();
                if domain.is_empty() || domain.split('.').any(|l| l.is_empty()) {
                    return Err(PslError::EmptyLabel);
                }
                // which error value says "not registrable" is the provider's business: rule sets of even size use another one
                let n = if let ProviderKind::RuleSet(r) = &self.kind { r.len() } else { 1 };
                psl.etld_plus_one(domain).ok_or(if n % 2 == 0 { PslError::InvalidPublicSuffix } else { PslError::CannotDeriveETldPlus1 })
            }
        }
    }
}

/// the ASCII form a name is looked up in
pub fn to_ascii(name: &str) -> Option<String> {
    if name.is_ascii() && !name.split('.').any(|l| l.starts_with("xn--")) {
        Some(name.to_string())
    } else {
        idna::domain_to_ascii(name).ok()
    }
}

pub struct SpecEnv<'a> {
    pub psl: &'a Psl,
    pub provider: &'a HProvider,
    pub allow_localhost: bool,
}

impl SpecEnv<'_> {
    /// "the effective RP ID is a registrable domain rather than a public suffix"
    pub fn registrable(&self, effective: &str) -> bool {
        let Some(ascii) = to_ascii(effective) else { return false };
        match self.provider.kind {
            ProviderKind::Default => self.psl.is_registrable(&ascii),
            _ => self.provider.effective_tld_plus_one(&ascii).is_ok(),
        }
    }

    /// Conditions of the statement shared by both origin kinds. `host` plays the role of the
    /// origin host, `secure` says whether the scheme requirement is met (always true for Android).
    pub fn spec(&self, host: &str, rp_id: Option<&str>, secure: bool) -> Option<String> {
        let effective = rp_id.unwrap_or(host);
        // equals the host, or is a suffix of it that begins at a label boundary
        let aligned = match host.strip_suffix(effective) {
            Some(prefix) => prefix.is_empty() || prefix.ends_with('.') || effective.starts_with('.'),
            None => false,
        };
        if !aligned {
            return None;
        }
        if effective == "localhost" && self.allow_localhost {
            return Some(effective.to_string());
        }
        if secure && self.registrable(effective) {
            return Some(effective.to_string());
        }
        None
    }

    pub fn valid_rp_id(&self, rp: &str) -> bool {
        (rp == "localhost" && self.allow_localhost) || self.registrable(rp)
    }
}
