//! Shared infrastructure: run context, evidence writer, known-findings file, proptest driver.

use std::cell::RefCell;
use std::collections::{BTreeMap, HashSet};
use std::hash::{Hash, Hasher};
use std::path::PathBuf;
use std::time::Instant;

use proptest::strategy::{Strategy, ValueTree};
use proptest::test_runner::{Config, RngSeed, TestCaseError, TestError, TestRunner};
use serde_json::{json, Map, Value};

#[derive(Clone, Copy, PartialEq, Eq, Debug)]
pub enum Tier {
    Quick,
    Thorough,
}

impl Tier {
    pub fn name(self) -> &'static str {
        match self {
            Tier::Quick => "quick",
            Tier::Thorough => "thorough",
        }
    }
    /// pick a budget by tier
    pub fn pick<T>(self, quick: T, thorough: T) -> T {
        match self {
            Tier::Quick => quick,
            Tier::Thorough => thorough,
        }
    }
}

/// build configuration under test other than the default one (VERIF_VARIANT; "b64" = the library's
/// `serialize_bytes_as_base64_string` feature); evidence and replay files carry the name
pub fn variant() -> Option<String> {
    std::env::var("VERIF_VARIANT").ok().filter(|s| !s.is_empty())
}

pub fn root() -> PathBuf {
    PathBuf::from(std::env::var("VERIF_ROOT").unwrap_or_else(|_| "/verif".into()))
}

pub fn repo() -> PathBuf {
    PathBuf::from(std::env::var("VERIF_REPO").unwrap_or_else(|_| "/repo".into()))
}

/// deterministic 64-bit hash (SipHash with fixed zero keys)
pub fn h64<T: Hash + ?Sized>(t: &T) -> u64 {
    #[allow(deprecated)]
    let mut h = std::hash::SipHasher::new_with_keys(0x5eed, 0xc0de);
    t.hash(&mut h);
    h.finish()
}

pub fn hex(b: &[u8]) -> String {
    let mut s = String::with_capacity(b.len() * 2);
    for x in b {
        s.push_str(&format!("{:02x}", x));
    }
    s
}

pub fn unhex(s: &str) -> Vec<u8> {
    let s = s.as_bytes();
    (0..s.len() / 2)
        .map(|i| u8::from_str_radix(std::str::from_utf8(&s[2 * i..2 * i + 2]).unwrap(), 16).unwrap())
        .collect()
}

/// One entry of KNOWN_FINDINGS.txt
#[derive(Debug, Clone)]
pub struct Known {
    pub open: bool,
    pub property: String,
    pub sig: String,
    pub text: String,
}

pub fn load_known() -> Vec<Known> {
    let p = root().join("KNOWN_FINDINGS.txt");
    let Ok(s) = std::fs::read_to_string(p) else {
        return vec![];
    };
    let mut out = vec![];
    for line in s.lines() {
        let line = line.trim();
        if line.is_empty() || line.starts_with('#') {
            continue;
        }
        let (open, rest) = if let Some(r) = line.strip_prefix("open:") {
            (true, r.trim())
        } else if let Some(r) = line.strip_prefix("fixed:") {
            (false, r.trim())
        } else {
            continue;
        };
        let mut property = String::new();
        let mut sig = String::new();
        for tok in rest.split_whitespace() {
            if let Some(p) = tok.strip_prefix("property=") {
                property = p.to_string();
            } else if let Some(p) = tok.strip_prefix("sig=") {
                sig = p.to_string();
            }
        }
        out.push(Known { open, property, sig, text: rest.to_string() });
    }
    out
}

pub struct Violation {
    pub stage: String,
    pub msg: String,
    pub replay: PathBuf,
}

pub struct Ctx {
    pub id: &'static str,
    pub tier: Tier,
    pub seed: u64,
    pub level: &'static str,
    start: Instant,
    pub evals: u64,
    distinct: HashSet<u64>,
    classes: BTreeMap<String, u64>,
    samples: Vec<Value>,
    sample_classes: BTreeMap<String, u32>,
    pub extra: Map<String, Value>,
    pub rule: String,
    pub assumptions: Vec<String>,
    pub exhaustive: Option<bool>,
    known: Vec<Known>,
    known_hits: BTreeMap<String, u64>,
    pub violations: Vec<Violation>,
    pub strict: bool,
    counting: bool,
    /// (k, K) when this process is shard k of K of a thorough run
    pub shard: Option<(u64, u64)>,
}

impl Ctx {
    pub fn new(id: &'static str, tier: Tier, seed: u64) -> Self {
        Ctx {
            id,
            tier,
            seed,
            level: "exploration",
            start: Instant::now(),
            evals: 0,
            distinct: HashSet::new(),
            classes: BTreeMap::new(),
            samples: vec![],
            sample_classes: BTreeMap::new(),
            extra: Map::new(),
            rule: String::new(),
            assumptions: vec![],
            exhaustive: None,
            known: load_known().into_iter().filter(|k| k.property == id).collect(),
            known_hits: BTreeMap::new(),
            violations: vec![],
            strict: false,
            counting: true,
            shard: std::env::var("VERIF_SHARD").ok().and_then(|k| k.parse().ok()).zip(std::env::var("VERIF_SHARDS").ok().and_then(|k| k.parse().ok())),
        }
    }

    /// merge the counters of a context that was filled on another thread
    pub fn absorb(&mut self, other: Ctx) {
        self.evals += other.evals;
        self.distinct.extend(other.distinct);
        for (k, v) in other.classes {
            *self.classes.entry(k).or_insert(0) += v;
        }
        for (k, v) in other.known_hits {
            *self.known_hits.entry(k).or_insert(0) += v;
        }
        for smp in other.samples {
            let class = smp.get("class").and_then(|c| c.as_str()).unwrap_or("").to_string();
            let n = self.sample_classes.entry(class).or_insert(0);
            if *n < 2 && self.samples.len() < 40 {
                *n += 1;
                self.samples.push(smp);
            }
        }
        for (k, v) in other.extra {
            if let Some(u) = v.as_u64() {
                let e = self.extra.entry(k).or_insert(json!(0));
                *e = json!(e.as_u64().unwrap_or(0) + u);
            }
        }
    }

    /// deterministic (swept / enumerated) stages run on the first shard only
    pub fn first_shard(&self) -> bool {
        self.shard.map_or(true, |(k, _)| k == 0)
    }

    pub fn set_counting(&mut self, on: bool) {
        self.counting = on;
    }

    /// one evaluated case
    pub fn eval(&mut self) {
        if self.counting {
            self.evals += 1;
        }
    }
    pub fn evals_add(&mut self, n: u64) {
        if self.counting {
            self.evals += n;
        }
    }
    /// a non-trivial case, identified by `key` for distinctness
    pub fn nontrivial<T: Hash + ?Sized>(&mut self, key: &T) {
        if self.counting {
            self.distinct.insert(h64(key));
        }
    }
    pub fn class(&mut self, name: &str) {
        if self.counting {
            *self.classes.entry(name.to_string()).or_insert(0) += 1;
        }
    }
    pub fn class_n(&mut self, name: &str, n: u64) {
        if self.counting {
            *self.classes.entry(name.to_string()).or_insert(0) += n;
        }
    }
    pub fn class_count(&self, name: &str) -> u64 {
        self.classes.get(name).copied().unwrap_or(0)
    }
    /// keep a few written-out samples per class
    pub fn sample(&mut self, class: &str, v: impl FnOnce() -> Value) {
        if !self.counting {
            return;
        }
        let n = self.sample_classes.entry(class.to_string()).or_insert(0);
        if *n < 2 && self.samples.len() < 40 {
            *n += 1;
            self.samples.push(json!({"class": class, "case": v()}));
        }
    }
    pub fn measure(&mut self, key: &str, add: u64) {
        if !self.counting {
            return;
        }
        let e = self.extra.entry(key.to_string()).or_insert(json!(0));
        *e = json!(e.as_u64().unwrap_or(0) + add);
    }
    pub fn note(&mut self, key: &str, v: Value) {
        self.extra.insert(key.to_string(), v);
    }

    /// Is there an open known finding with this signature?
    pub fn is_known(&self, sig: &str) -> bool {
        !self.strict && self.known.iter().any(|k| k.open && k.sig == sig)
    }

    /// record a disagreement that matches an open known finding
    pub fn known_hit(&mut self, sig: &str) {
        *self.known_hits.entry(sig.to_string()).or_insert(0) += 1;
    }

    /// Record a violation: writes the replay file and prints the VIOLATION line. Only the
    /// first violation per stage is written out.
    pub fn violation(&mut self, stage: &str, case: Value, msg: &str) {
        if self.violations.iter().any(|v| v.stage == stage) {
            return;
        }
        let dir = root().join("replays");
        let _ = std::fs::create_dir_all(&dir);
        let path = dir.join(format!("{}-{}{}-seed{}.json", self.id, variant().map(|v| format!("{v}@")).unwrap_or_default(), stage, self.seed));
        let mut body = json!({"property": self.id, "stage": stage, "seed": self.seed, "message": msg, "case": case});
        if let Some(v) = variant() {
            body["variant"] = json!(v);
        }
        let _ = std::fs::write(&path, serde_json::to_string_pretty(&body).unwrap());
        println!("VIOLATION property={} replay={}", self.id, path.display());
        println!("  stage={} {}", stage, msg.lines().next().unwrap_or(""));
        for l in msg.lines().skip(1).take(30) {
            println!("  {}", l);
        }
        self.violations.push(Violation { stage: stage.to_string(), msg: msg.to_string(), replay: path });
    }

    /// either counts a known finding or reports a violation
    pub fn known_or_violation(&mut self, sig: &str, stage: &str, case: impl FnOnce() -> Value, msg: &str) {
        if self.is_known(sig) {
            self.known_hit(sig);
        } else {
            self.violation(stage, case(), msg);
        }
    }

    pub fn finish(mut self) -> i32 {
        let wall = self.start.elapsed().as_secs_f64();
        for k in &self.known {
            if k.open {
                let hits = self.known_hits.get(&k.sig).copied().unwrap_or(0);
                println!("KNOWN-FINDING: property={} {} (hits this run: {})", self.id, k.text.replacen(&format!("property={} ", self.id), "", 1), hits);
            }
        }
        let mut cov = Map::new();
        cov.insert("evaluations".into(), json!(self.evals));
        cov.insert("distinct_nontrivial".into(), json!(self.distinct.len()));
        cov.insert("rule".into(), json!(self.rule));
        cov.insert("samples".into(), Value::Array(std::mem::take(&mut self.samples)));
        cov.insert("classes".into(), json!(self.classes));
        if let Some(e) = self.exhaustive {
            cov.insert("exhaustive".into(), json!(e));
        }
        cov.insert("known_hits".into(), json!(self.known_hits));
        for (k, v) in std::mem::take(&mut self.extra) {
            cov.insert(k, v);
        }
        let ev = json!({
            "property_id": self.id,
            "tier": self.tier.name(),
            "seed": self.seed,
            "level": self.level,
            "coverage": Value::Object(cov),
            "assumptions": self.assumptions,
            "wall_s": (wall * 1000.0).round() / 1000.0,
            "violations": self.violations.len(),
            "violation_details": self.violations.iter().map(|v| json!({"stage": v.stage, "replay": v.replay.display().to_string(), "message": v.msg.lines().next().unwrap_or("")})).collect::<Vec<_>>(),
        });
        let dir = root().join("evidence");
        let _ = std::fs::create_dir_all(&dir);
        let path = match self.shard {
            Some((k, _)) => {
                // distinct keys go to a side file so that the parent can count the union
                let mut keys: Vec<u8> = Vec::with_capacity(self.distinct.len() * 8);
                for h in &self.distinct {
                    keys.extend_from_slice(&h.to_le_bytes());
                }
                let _ = std::fs::write(dir.join(format!("{}.shard{k}.keys", self.id)), keys);
                dir.join(format!("{}.shard{k}.json", self.id))
            }
            None => match variant() {
                Some(v) => dir.join(format!("{}.variant-{v}.json", self.id)),
                None => dir.join(format!("{}.json", self.id)),
            },
        };
        if let Err(e) = std::fs::write(&path, serde_json::to_string_pretty(&ev).unwrap()) {
            eprintln!("cannot write evidence {}: {e}", path.display());
            return 2;
        }
        println!(
            "{} {} seed={} evaluations={} distinct_nontrivial={} violations={} wall={:.1}s",
            self.id,
            self.tier.name(),
            self.seed,
            self.evals,
            self.distinct.len(),
            self.violations.len(),
            wall
        );
        if self.violations.is_empty() {
            0
        } else {
            1
        }
    }
}

/// Outcome of a generated search
pub enum Search<T> {
    Pass,
    /// minimal failing value and the reason
    Fail(T, String),
}

/// Drive `test` with values of `strategy`; on failure proptest shrinks and the minimal value is
/// returned. `ctx` statistics stop being counted once the first failure is seen (the closure is
/// re-run during shrinking).
pub fn search<S, F>(ctx: &mut Ctx, salt: u64, cases: u32, strategy: S, test: F) -> Search<S::Value>
where
    S: Strategy,
    S::Value: std::fmt::Debug,
    F: Fn(&mut Ctx, &S::Value) -> Result<(), String>,
{
    let (cases, shard_mix) = match ctx.shard {
        Some((k, n)) => (cases.div_ceil(n as u32).max(1), k.wrapping_mul(0xD1B54A32D192ED03)),
        None => (cases, 0),
    };
    let config = Config {
        cases,
        failure_persistence: None,
        rng_seed: RngSeed::Fixed(ctx.seed.wrapping_mul(0x9E3779B97F4A7C15).wrapping_add(salt) ^ shard_mix),
        max_shrink_iters: 20_000,
        max_global_rejects: 1 << 20,
        ..Config::default()
    };
    let mut runner = TestRunner::new(config);
    let cell = RefCell::new(ctx);
    let res = runner.run(&strategy, |v| {
        let mut guard = cell.borrow_mut();
        let ctx: &mut Ctx = &mut guard;
        match test(ctx, &v) {
            Ok(()) => Ok(()),
            Err(e) => {
                ctx.set_counting(false);
                Err(TestCaseError::fail(e))
            }
        }
    });
    let ctx = cell.into_inner();
    ctx.set_counting(true);
    match res {
        Ok(()) => Search::Pass,
        Err(TestError::Fail(reason, v)) => Search::Fail(v, reason.message().to_string()),
        Err(TestError::Abort(reason)) => {
            eprintln!("proptest aborted: {}", reason.message());
            std::process::exit(2);
        }
    }
}

/// Draw `n` values from a strategy deterministically without the runner's failure handling
/// (used by worker processes that regenerate case i from (seed, i)).
pub fn nth_value<S: Strategy>(seed: u64, strategy: &S) -> S::Value {
    let config = Config { rng_seed: RngSeed::Fixed(seed), failure_persistence: None, ..Config::default() };
    let mut runner = TestRunner::new(config);
    strategy.new_tree(&mut runner).expect("strategy").current()
}

/// map a u16 index monotonically into 0..len
pub fn idx(i: u16, len: usize) -> usize {
    ((i as usize) * len) >> 16
}


/// Parent side of a sharded thorough run: spawn K copies of this binary as shards, merge their evidence.
pub fn run_sharded(id: &'static str, seed: u64, shards: u64) -> i32 {
    let exe = if std::path::Path::new("/proc/self/exe").exists() { PathBuf::from("/proc/self/exe") } else { std::env::current_exe().expect("current_exe") };
    let t0 = Instant::now();
    let dir = root().join("evidence");
    let _ = std::fs::create_dir_all(&dir);
    let mut children = vec![];
    for k in 0..shards {
        let _ = std::fs::remove_file(dir.join(format!("{id}.shard{k}.json")));
        let c = std::process::Command::new(&exe).args([id, "thorough"]).env("VERIF_SHARD", k.to_string()).env("VERIF_SHARDS", shards.to_string()).env("VERIF_TIER", "thorough").stdout(std::process::Stdio::piped()).spawn();
        match c {
            Ok(c) => children.push((k, c)),
            Err(e) => {
                eprintln!("cannot spawn shard {k}: {e}");
                return 2;
            }
        }
    }
    let mut rc = 0;
    let mut known_lines: Vec<String> = vec![];
    for (k, c) in children {
        let out = match c.wait_with_output() {
            Ok(o) => o,
            Err(e) => {
                eprintln!("shard {k}: {e}");
                return 2;
            }
        };
        let code = out.status.code().unwrap_or(2);
        for line in String::from_utf8_lossy(&out.stdout).lines() {
            if line.starts_with("KNOWN-FINDING:") {
                if !known_lines.iter().any(|l| l.split(" (hits").next() == line.split(" (hits").next()) {
                    known_lines.push(line.to_string());
                }
            } else if line.starts_with("VIOLATION") || line.starts_with("  ") {
                println!("{line}");
            }
        }
        if code == 1 {
            rc = 1;
        } else if code != 0 && rc == 0 {
            rc = 2;
        }
    }
    // merge
    let mut merged: Option<Value> = None;
    let mut keys: HashSet<u64> = HashSet::new();
    let mut evaluations = 0u64;
    let mut violations = 0u64;
    let mut classes: BTreeMap<String, u64> = BTreeMap::new();
    let mut known: BTreeMap<String, u64> = BTreeMap::new();
    let mut samples: Vec<Value> = vec![];
    let mut numeric: BTreeMap<String, u64> = BTreeMap::new();
    let mut details: Vec<Value> = vec![];
    for k in 0..shards {
        let Ok(text) = std::fs::read_to_string(dir.join(format!("{id}.shard{k}.json"))) else { continue };
        let Ok(v) = serde_json::from_str::<Value>(&text) else { continue };
        let cov = &v["coverage"];
        evaluations += cov["evaluations"].as_u64().unwrap_or(0);
        violations += v["violations"].as_u64().unwrap_or(0);
        if let Some(d) = v["violation_details"].as_array() {
            details.extend(d.iter().cloned());
        }
        if let Some(c) = cov["classes"].as_object() {
            for (n, x) in c {
                *classes.entry(n.clone()).or_insert(0) += x.as_u64().unwrap_or(0);
            }
        }
        if let Some(c) = cov["known_hits"].as_object() {
            for (n, x) in c {
                *known.entry(n.clone()).or_insert(0) += x.as_u64().unwrap_or(0);
            }
        }
        if let Some(a) = cov["samples"].as_array() {
            for x in a.iter().take(if k == 0 { 24 } else { 2 }) {
                if samples.len() < 40 {
                    samples.push(x.clone());
                }
            }
        }
        if let Some(o) = cov.as_object() {
            for (n, x) in o {
                if !["evaluations", "distinct_nontrivial", "classes", "known_hits", "samples", "rule", "exhaustive"].contains(&n.as_str()) {
                    if let Some(u) = x.as_u64() {
                        *numeric.entry(n.clone()).or_insert(0) += u;
                    }
                }
            }
        }
        if let Ok(b) = std::fs::read(dir.join(format!("{id}.shard{k}.keys"))) {
            for ch in b.chunks_exact(8) {
                keys.insert(u64::from_le_bytes(ch.try_into().unwrap()));
            }
        }
        if merged.is_none() {
            merged = Some(v);
        }
        let _ = std::fs::remove_file(dir.join(format!("{id}.shard{k}.json")));
        let _ = std::fs::remove_file(dir.join(format!("{id}.shard{k}.keys")));
    }
    let Some(mut ev) = merged else {
        eprintln!("no shard produced evidence");
        return 2;
    };
    {
        let cov = ev["coverage"].as_object_mut().unwrap();
        cov.insert("evaluations".into(), json!(evaluations));
        cov.insert("distinct_nontrivial".into(), json!(keys.len()));
        cov.insert("classes".into(), json!(classes));
        cov.insert("known_hits".into(), json!(known));
        cov.insert("samples".into(), Value::Array(samples));
        for (n, x) in numeric {
            cov.insert(n, json!(x));
        }
        cov.insert("shards".into(), json!(shards));
    }
    ev["violations"] = json!(violations);
    ev["violation_details"] = Value::Array(details);
    ev["wall_s"] = json!((t0.elapsed().as_secs_f64() * 1000.0).round() / 1000.0);
    ev["seed"] = json!(seed);
    if std::fs::write(dir.join(format!("{id}.json")), serde_json::to_string_pretty(&ev).unwrap()).is_err() {
        return 2;
    }
    for l in known_lines {
        println!("{}", l.split(" (hits").next().unwrap_or(&l));
    }
    println!("{id} thorough seed={seed} shards={shards} evaluations={evaluations} distinct_nontrivial={} violations={violations} wall={:.1}s", keys.len(), t0.elapsed().as_secs_f64());
    rc
}
