//! Shared helpers for running ceremonies against the real library.

use coset::iana;
use passkey_authenticator::extensions::HmacSecretConfig;
use passkey_authenticator::{Authenticator, CredentialIdLength, CredentialStore};
use passkey_types::ctap2::Aaguid;
use passkey_types::webauthn::{
    self, AuthenticationExtensionsClientInputs, AuthenticatorSelectionCriteria, CredentialCreationOptions, CredentialRequestOptions, PublicKeyCredentialCreationOptions, PublicKeyCredentialDescriptor,
    PublicKeyCredentialParameters, PublicKeyCredentialRequestOptions, PublicKeyCredentialRpEntity, PublicKeyCredentialType, PublicKeyCredentialUserEntity, UserVerificationRequirement,
};
use serde::{Deserialize, Serialize};

use crate::rt::ScriptedUv;

#[derive(Clone, Copy, Debug, Serialize, Deserialize, PartialEq, Eq, Hash)]
pub enum HmacCfg {
    None,
    UvOnly,
    UvOnlyMc,
    WithoutUv,
    WithoutUvMc,
}

impl HmacCfg {
    pub const ALL: [HmacCfg; 5] = [HmacCfg::None, HmacCfg::UvOnly, HmacCfg::UvOnlyMc, HmacCfg::WithoutUv, HmacCfg::WithoutUvMc];
    pub fn enabled(self) -> bool {
        self != HmacCfg::None
    }
    pub fn without_uv(self) -> bool {
        matches!(self, HmacCfg::WithoutUv | HmacCfg::WithoutUvMc)
    }
    pub fn on_mc(self) -> bool {
        matches!(self, HmacCfg::UvOnlyMc | HmacCfg::WithoutUvMc)
    }
}

#[derive(Clone, Debug, Serialize, Deserialize, PartialEq, Eq, Hash)]
pub struct AuthCfg {
    pub counter: bool,
    /// requested credential id length (None = library default)
    pub id_len: Option<u8>,
    pub hmac: HmacCfg,
    pub aaguid: [u8; 16],
    /// the consuming `transports` builder is called last (after the setters and the hmac-secret builder):
    /// 1 an empty list, 2 usb, 3 internal + hybrid; 0 = not called
    #[serde(default)]
    pub transports: u8,
}

impl Default for AuthCfg {
    fn default() -> Self {
        AuthCfg { counter: false, id_len: None, hmac: HmacCfg::None, aaguid: [0; 16], transports: 0 }
    }
}

pub fn expected_id_len(req: Option<u8>) -> usize {
    match req {
        None => 16,
        Some(n) => (n as usize).clamp(16, 64),
    }
}

pub fn build_authenticator<S: CredentialStore>(store: S, uv: ScriptedUv, cfg: &AuthCfg) -> Authenticator<S, ScriptedUv> {
    let mut a = Authenticator::new(Aaguid::from(cfg.aaguid), store, uv);
    a.set_make_credentials_with_signature_counter(cfg.counter);
    if let Some(n) = cfg.id_len {
        a.set_make_credential_id_length(CredentialIdLength::from(n));
    }
    let a = match cfg.hmac {
        HmacCfg::None => a,
        HmacCfg::UvOnly => a.hmac_secret(HmacSecretConfig::new_with_uv_only()),
        HmacCfg::UvOnlyMc => a.hmac_secret(HmacSecretConfig::new_with_uv_only().enable_on_make_credential()),
        HmacCfg::WithoutUv => a.hmac_secret(HmacSecretConfig::new_without_uv()),
        HmacCfg::WithoutUvMc => a.hmac_secret(HmacSecretConfig::new_without_uv().enable_on_make_credential()),
    };
    use passkey_types::webauthn::AuthenticatorTransport as T;
    match cfg.transports % 4 {
        0 => a,
        1 => a.transports(vec![]),
        2 => a.transports(vec![T::Usb]),
        _ => a.transports(vec![T::Internal, T::Hybrid]),
    }
}

pub fn alg_from_i64(v: i64) -> Option<iana::Algorithm> {
    use coset::iana::EnumI64;
    iana::Algorithm::from_i64(v)
}

pub fn params(algs: &[i64]) -> Vec<PublicKeyCredentialParameters> {
    algs.iter().filter_map(|a| alg_from_i64(*a)).map(|alg| PublicKeyCredentialParameters { ty: PublicKeyCredentialType::PublicKey, alg }).collect()
}

pub fn uv_req(i: u8) -> UserVerificationRequirement {
    match i % 3 {
        0 => UserVerificationRequirement::Required,
        1 => UserVerificationRequirement::Preferred,
        _ => UserVerificationRequirement::Discouraged,
    }
}

pub fn descriptor(id: &[u8]) -> PublicKeyCredentialDescriptor {
    PublicKeyCredentialDescriptor { ty: PublicKeyCredentialType::PublicKey, id: id.to_vec().into(), transports: None }
}

/// descriptor with transport hints chosen by `tsel` (0 none, 1 usb, 2 internal+hybrid, 3 nfc+ble, 4 empty list)
pub fn descriptor_full(id: &[u8], known: bool, tsel: u8) -> PublicKeyCredentialDescriptor {
    use passkey_types::webauthn::AuthenticatorTransport as T;
    let transports = match tsel % 5 {
        0 => None,
        1 => Some(vec![T::Usb]),
        2 => Some(vec![T::Internal, T::Hybrid]),
        3 => Some(vec![T::Nfc, T::Ble]),
        _ => Some(vec![]),
    };
    PublicKeyCredentialDescriptor { ty: if known { PublicKeyCredentialType::PublicKey } else { PublicKeyCredentialType::Unknown }, id: id.to_vec().into(), transports }
}

pub fn descriptor_ty(id: &[u8], known: bool) -> PublicKeyCredentialDescriptor {
    PublicKeyCredentialDescriptor { ty: if known { PublicKeyCredentialType::PublicKey } else { PublicKeyCredentialType::Unknown }, id: id.to_vec().into(), transports: None }
}

#[allow(clippy::too_many_arguments)]
pub fn creation_options(
    rp_id: Option<&str>,
    challenge: &[u8],
    user_id: &[u8],
    user_name: &str,
    algs: &[i64],
    exclude: Option<Vec<PublicKeyCredentialDescriptor>>,
    selection: Option<AuthenticatorSelectionCriteria>,
    extensions: Option<AuthenticationExtensionsClientInputs>,
) -> CredentialCreationOptions {
    CredentialCreationOptions {
        public_key: PublicKeyCredentialCreationOptions {
            rp: PublicKeyCredentialRpEntity { id: rp_id.map(|s| s.to_string()), name: "rp name".into() },
            user: PublicKeyCredentialUserEntity { id: user_id.to_vec().into(), display_name: user_name.to_string(), name: user_name.to_string() },
            challenge: challenge.to_vec().into(),
            pub_key_cred_params: params(algs),
            timeout: None,
            exclude_credentials: exclude,
            authenticator_selection: selection,
            hints: None,
            attestation: Default::default(),
            attestation_formats: None,
            extensions,
        },
    }
}

pub fn request_options(
    rp_id: Option<&str>,
    challenge: &[u8],
    allow: Option<Vec<PublicKeyCredentialDescriptor>>,
    uv: UserVerificationRequirement,
    extensions: Option<AuthenticationExtensionsClientInputs>,
) -> CredentialRequestOptions {
    CredentialRequestOptions {
        public_key: PublicKeyCredentialRequestOptions {
            challenge: challenge.to_vec().into(),
            timeout: None,
            rp_id: rp_id.map(|s| s.to_string()),
            allow_credentials: allow,
            user_verification: uv,
            hints: None,
            attestation: Default::default(),
            attestation_formats: None,
            extensions,
        },
    }
}

pub fn selection(resident_key: Option<webauthn::ResidentKeyRequirement>, require_resident_key: bool, uv: UserVerificationRequirement) -> AuthenticatorSelectionCriteria {
    AuthenticatorSelectionCriteria { authenticator_attachment: None, resident_key, require_resident_key, user_verification: uv }
}
