//! Model-based interpreter of register / authenticate histories through `passkey_client::Client`,
//! with an independent relying-party verifier as oracle. Serves C02, C03, C08 (and pieces of
//! C05, C06, C09, C11).

use std::collections::HashSet;
use std::panic::{catch_unwind, AssertUnwindSafe};

use passkey_authenticator::{CredentialStore, MemoryStore};
use passkey_client::{Client, DefaultClientData, DefaultClientDataWithCustomHash, DefaultClientDataWithExtra, Origin, UnverifiedAssetLink, WebauthnError};
use passkey_types::webauthn::{AuthenticatedPublicKeyCredential, CreatedPublicKeyCredential, PublicKeyCredentialDescriptor};
use passkey_types::Passkey;
use proptest::prelude::*;
use serde::{Deserialize, Serialize};
use serde_json::{json, Value};
use url::Url;

use crate::cer::{self, AuthCfg, HmacCfg};
use crate::core::idx;
use crate::model::authdata::{self, AT, ED};
use crate::model::rpid::{HProvider, ProviderKind};
use crate::model::util::{b64url, public_from_scalar, sha256, snap, spki_point, verify_der, PkSnap};
use crate::rt::{block_on, Disc, RefStore, ScriptedUv, StoreCall, UvScript};

// ------------------------------------------------------------------ sites (origin, RP ID) accepted under C01

pub struct Site {
    pub url: Option<&'static str>,
    pub android_host: Option<&'static str>,
    pub rp: Option<&'static str>,
    pub effective: &'static str,
}

pub const FP_HEX: &str = "B3:5B:68:D5:CE:84:50:55:7C:6A:55:FD:64:B5:1F:EA:C1:10:CB:36:D6:A3:52:1C:59:48:DB:3A:38:0A:34:A9";
pub const FP_BYTES: [u8; 32] = [0xB3, 0x5B, 0x68, 0xD5, 0xCE, 0x84, 0x50, 0x55, 0x7C, 0x6A, 0x55, 0xFD, 0x64, 0xB5, 0x1F, 0xEA, 0xC1, 0x10, 0xCB, 0x36, 0xD6, 0xA3, 0x52, 0x1C, 0x59, 0x48, 0xDB, 0x3A, 0x38, 0x0A, 0x34, 0xA9];

pub const SITES: [Site; 15] = [
    Site { url: Some("https://www.example.com"), android_host: None, rp: Some("example.com"), effective: "example.com" },
    Site { url: Some("https://example.com"), android_host: None, rp: None, effective: "example.com" },
    Site { url: Some("https://login.example.org:8443"), android_host: None, rp: None, effective: "login.example.org" },
    Site { url: Some("https://shop.foo.co.uk"), android_host: None, rp: Some("foo.co.uk"), effective: "foo.co.uk" },
    Site { url: Some("http://localhost:8080"), android_host: None, rp: None, effective: "localhost" },
    Site { url: None, android_host: Some("app.example.net"), rp: Some("example.net"), effective: "example.net" },
    Site { url: Some("https://xn--bcher-kva.example.com"), android_host: None, rp: None, effective: "xn--bcher-kva.example.com" },
    Site { url: Some("https://a.b.example.org"), android_host: None, rp: Some("example.org"), effective: "example.org" },
    Site { url: Some("HTTPS://Example.COM:443"), android_host: None, rp: Some("example.com"), effective: "example.com" },
    // names below "localhost" are ordinary registrable names (only the literal host "localhost" is special)
    Site { url: Some("https://app.localhost"), android_host: None, rp: None, effective: "app.localhost" },
    Site { url: Some("https://login.other.localhost:8443"), android_host: None, rp: Some("other.localhost"), effective: "other.localhost" },
    // an explicit port that is the default of the *other* scheme is part of the origin
    Site { url: Some("https://example.com:80"), android_host: None, rp: None, effective: "example.com" },
    Site { url: Some("http://localhost:443"), android_host: None, rp: None, effective: "localhost" },
    // Android callers whose certificate fingerprint contains the 6-bit groups 62 and 63 (where the base64 alphabets differ)
    Site { url: None, android_host: Some("app2.example.net"), rp: Some("example.net"), effective: "example.net" },
    Site { url: None, android_host: Some("pay.shop.example.org"), rp: Some("shop.example.org"), effective: "shop.example.org" },
];

/// RP IDs that only exist at the CTAP2 level (the client would never produce them): preload site index 100 + k
pub const CTAP_ONLY_RPS: [&str; 2] = ["Login.Example.COM", "EXAMPLE.com"];

impl Site {
    pub fn origin(&self) -> Origin<'static> {
        if let Some(u) = self.url {
            Url::parse(u).unwrap().into()
        } else {
            let url = Url::parse("https://assets.example.net/.well-known/assetlinks.json").unwrap();
            let fp = self.fingerprint();
            let hex: Vec<String> = fp.iter().map(|b| format!("{b:02X}")).collect();
            Origin::Android(UnverifiedAssetLink::new("net.example.app".to_string(), &hex.join(":"), self.android_host.unwrap().to_string(), url).unwrap())
        }
    }
    /// the signing-certificate fingerprint of an Android caller: the repository's example for the first Android site,
    /// otherwise bytes derived from the host that start with FB FF BF (base64url "-_-_", base64 "+/+/")
    pub fn fingerprint(&self) -> [u8; 32] {
        match self.android_host {
            Some("app.example.net") | None => FP_BYTES,
            Some(h) => {
                let mut f = [0u8; 32];
                f.copy_from_slice(&sha256(h.as_bytes()));
                f[0] = 0xFB;
                f[1] = 0xFF;
                f[2] = 0xBF;
                f
            }
        }
    }
    /// the caller's origin as a relying party expects it in client data
    pub fn expected_origin(&self) -> String {
        if let Some(u) = self.url {
            Url::parse(u).unwrap().origin().ascii_serialization()
        } else {
            format!("android:apk-key-hash:{}", b64url(&self.fingerprint()))
        }
    }
}

// ------------------------------------------------------------------ history description

#[derive(Clone, Copy, Debug, Serialize, Deserialize, PartialEq, Eq, Hash)]
pub enum StoreKind {
    Ref,
    Memory,
    OptionSlot,
    /// the reference store handed over inside one of the library's lock wrappers
    RefInMutex,
    RefInRwLock,
    RefInArcMutex,
    RefInArcRwLock,
}

impl StoreKind {
    pub fn is_ref(self) -> bool {
        !matches!(self, StoreKind::Memory | StoreKind::OptionSlot)
    }
}

#[derive(Clone, Debug, Serialize, Deserialize, PartialEq)]
pub enum CdMode {
    Default,
    Extra(Value),
    Hash(Vec<u8>),
}

#[derive(Clone, Debug, Serialize, Deserialize, PartialEq)]
pub struct RegOp {
    pub site: usize,
    pub challenge: Vec<u8>,
    pub user_id: Vec<u8>,
    pub user_name: String,
    pub algs: Vec<i64>,
    pub cd: CdMode,
    pub uv: u8,
    /// 0 absent selection, 1 discouraged, 2 preferred, 3 required, 4 absent+requireResidentKey
    pub rk: u8,
    /// bit i set: the i-th parameter carries an unknown credential type (only applied to entries whose
    /// algorithm the authenticator does not support, so that either treatment of such an entry is fine)
    #[serde(default)]
    pub unknown_type_mask: u8,
    /// attestation conveyance preference: 0 none (default), 1 indirect, 2 direct, 3 enterprise
    #[serde(default)]
    pub attestation: u8,
    /// extensions requested: bit 0 credProps, bit 1 PRF with one input, bit 2 a second PRF input
    #[serde(default)]
    pub ext: u8,
    /// exclude list: 0 absent, 1 empty, 2 names ids nobody holds, 3 names a credential held for another RP
    /// (reference store only; the shipped map ignores the RP there, known finding D5)
    #[serde(default)]
    pub exclude: u8,
}

#[derive(Clone, Debug, Serialize, Deserialize, PartialEq)]
pub enum IdRef {
    /// the k-th credential registered so far (modulo), descriptor type known?
    Known(u16, bool),
    Unknown(Vec<u8>, bool),
}

#[derive(Clone, Debug, Serialize, Deserialize, PartialEq)]
pub enum AllowSel {
    Absent,
    Empty,
    Ids(Vec<IdRef>),
}

#[derive(Clone, Debug, Serialize, Deserialize, PartialEq)]
pub struct AuthOp {
    pub site: usize,
    pub challenge: Vec<u8>,
    pub allow: AllowSel,
    pub cd: CdMode,
    pub uv: u8,
    /// request a PRF evaluation with this input (extension request)
    #[serde(default)]
    pub prf: Option<Vec<u8>>,
}

#[derive(Clone, Debug, Serialize, Deserialize, PartialEq)]
pub enum Op {
    Reg(RegOp),
    Auth(AuthOp),
    /// an authentication during which the store's update call fails with this status (reference store only)
    AuthUpdateFault(AuthOp, u8),
    /// a registration during which the store refuses the save with this status (reference store and its lock wrappers)
    RegSaveFault(RegOp, u8),
    /// an assertion at the CTAP2 level on the k-th credential of the model with explicit up/uv options; the
    /// user-validation double reports exactly what is requested (plus verification if `extra_uv`)
    CtapAuth { target: u16, up: bool, uv: bool, extra_uv: bool },
}

#[derive(Clone, Debug, Serialize, Deserialize, PartialEq)]
pub struct History {
    pub store: StoreKind,
    pub disc: Disc,
    pub cfg: AuthCfg,
    /// pre-existing credentials: (site, counter start or None, user handle present)
    pub preload: Vec<(usize, Option<u32>, bool)>,
    pub ops: Vec<Op>,
}

// ------------------------------------------------------------------ store access

pub trait StoreAccess: CredentialStore<PasskeyItem = Passkey> + Sync + Send {
    fn snapshot(&self) -> Vec<PkSnap>;
    fn put(&mut self, pk: Passkey);
    fn update_log(&self) -> Vec<StoreCall> {
        vec![]
    }
    fn clear_log(&self) {}
    /// make the second fallible call (the counter update of an assertion) fail
    fn set_update_fault(&self, _code: Option<u8>) {}
    /// make the next save fail
    fn set_save_fault(&self, _code: Option<u8>) {}
}

impl StoreAccess for RefStore {
    fn set_save_fault(&self, code: Option<u8>) {
        self.set_fail_next_save(code);
    }
    fn set_update_fault(&self, code: Option<u8>) {
        self.set_faults(code.map(|c| std::collections::BTreeMap::from([(1usize, c)])).unwrap_or_default());
    }
    fn snapshot(&self) -> Vec<PkSnap> {
        self.creds().iter().map(snap).collect()
    }
    fn put(&mut self, pk: Passkey) {
        self.0.lock().unwrap().creds.push(pk);
    }
    fn update_log(&self) -> Vec<StoreCall> {
        self.log()
    }
    fn clear_log(&self) {
        RefStore::clear_log(self)
    }
}

macro_rules! wrapped_store_access {
    ($ty:ty, $get:ident) => {
        impl StoreAccess for $ty {
            fn snapshot(&self) -> Vec<PkSnap> {
                self.$get().expect("store lock is free between ceremonies").snapshot()
            }
            fn put(&mut self, pk: Passkey) {
                let inner: RefStore = self.$get().expect("store lock is free between ceremonies").clone();
                inner.0.lock().unwrap().creds.push(pk);
            }
            fn update_log(&self) -> Vec<StoreCall> {
                self.$get().expect("store lock is free between ceremonies").log()
            }
            fn clear_log(&self) {
                self.$get().expect("store lock is free between ceremonies").clear_log()
            }
            fn set_update_fault(&self, code: Option<u8>) {
                StoreAccess::set_update_fault(&*self.$get().expect("store lock is free between ceremonies"), code)
            }
            fn set_save_fault(&self, code: Option<u8>) {
                StoreAccess::set_save_fault(&*self.$get().expect("store lock is free between ceremonies"), code)
            }
        }
    };
}
wrapped_store_access!(tokio::sync::Mutex<RefStore>, try_lock);
wrapped_store_access!(tokio::sync::RwLock<RefStore>, try_read);
wrapped_store_access!(std::sync::Arc<tokio::sync::Mutex<RefStore>>, try_lock);
wrapped_store_access!(std::sync::Arc<tokio::sync::RwLock<RefStore>>, try_read);

impl StoreAccess for MemoryStore {
    fn snapshot(&self) -> Vec<PkSnap> {
        let mut v: Vec<PkSnap> = self.values().map(snap).collect();
        v.sort_by(|a, b| a.id.cmp(&b.id));
        v
    }
    fn put(&mut self, pk: Passkey) {
        self.insert(pk.credential_id.to_vec(), pk);
    }
}

impl StoreAccess for Option<Passkey> {
    fn snapshot(&self) -> Vec<PkSnap> {
        self.iter().map(snap).collect()
    }
    fn put(&mut self, pk: Passkey) {
        *self = Some(pk);
    }
}

// ------------------------------------------------------------------ model

#[derive(Clone, Debug)]
pub struct ModelCred {
    pub rp: String,
    pub id: Vec<u8>,
    pub x: Vec<u8>,
    pub y: Vec<u8>,
    pub user_handle: Option<Vec<u8>>,
    /// None = credential without counter
    pub counter: Option<u32>,
    pub assertions: u32,
    pub started_near_max: bool,
}

#[derive(Clone, Copy, Default)]
pub struct Oracles {
    pub c02: bool,
    pub c03: bool,
    pub c08: bool,
}

#[derive(Default)]
pub struct Stats {
    pub reg_ok: u64,
    pub reg_alg_fail: u64,
    pub reg_unexpected_err: u64,
    pub auth_ok: u64,
    pub auth_not_found: u64,
    pub auth_unexpected_err: u64,
    pub auth_faulted_err: u64,
    pub auth_prf_refused: u64,
    pub counted_assertions: u64,
    pub last_error: String,
}

fn decode_client_data(bytes: &[u8]) -> Result<Value, String> {
    serde_json::from_slice::<Value>(bytes).map_err(|e| format!("clientDataJSON is not JSON: {e}"))
}

fn check_client_data(cd_json: &[u8], ty: &str, challenge: &[u8], origin: &str, mode: &CdMode) -> Result<(), String> {
    let v = decode_client_data(cd_json)?;
    let o = v.as_object().ok_or("clientDataJSON is not an object")?;
    if o.get("type").and_then(|t| t.as_str()) != Some(ty) {
        return Err(format!("client data type is {:?}, expected {ty:?}", o.get("type")));
    }
    let want = b64url(challenge);
    if o.get("challenge").and_then(|t| t.as_str()) != Some(want.as_str()) {
        return Err(format!("client data challenge is {:?}, expected unpadded base64url {want:?}", o.get("challenge")));
    }
    if o.get("origin").and_then(|t| t.as_str()) != Some(origin) {
        return Err(format!("client data origin is {:?}, expected {origin:?}", o.get("origin")));
    }
    if let CdMode::Extra(Value::Object(extra)) = mode {
        for (k, want) in extra {
            if o.get(k) != Some(want) {
                return Err(format!("extra client data member {k:?} is {:?}, expected {want}", o.get(k)));
            }
        }
    }
    Ok(())
}

/// The relying-party checks on a successful registration (C02, first two sentences).
pub fn verify_registration(cred: &CreatedPublicKeyCredential, site: &Site, op: &RegOp) -> Result<(Vec<u8>, Vec<u8>, Vec<u8>), String> {
    check_client_data(&cred.response.client_data_json, "webauthn.create", &op.challenge, &site.expected_origin(), &op.cd)?;
    // attestation object
    let (att, used) = authdata::cbor_item(&cred.response.attestation_object).map_err(|e| format!("attestation object: {e}"))?;
    if used != cred.response.attestation_object.len() {
        return Err("attestation object has trailing bytes".into());
    }
    let fmt = authdata::map_get_text(&att, "fmt").and_then(|v| v.as_text()).ok_or("attestation object has no text fmt")?;
    if fmt != "none" {
        return Err(format!("attestation fmt is {fmt:?}, expected \"none\""));
    }
    match authdata::map_get_text(&att, "attStmt").and_then(|v| v.as_map()) {
        Some(m) if m.is_empty() => {}
        other => return Err(format!("attStmt is {other:?}, expected an empty map")),
    }
    let inner = authdata::map_get_text(&att, "authData").and_then(|v| v.as_bytes()).ok_or("attestation object has no authData bytes")?;
    if inner.as_slice() != cred.response.authenticator_data.as_slice() {
        return Err("authenticator data inside the attestation object differs from response.authenticatorData".into());
    }
    let ad = authdata::decode(&cred.response.authenticator_data)?;
    if ad.rp_id_hash != sha256(site.effective.as_bytes()) {
        return Err(format!("rpIdHash is not SHA-256({:?})", site.effective));
    }
    if ad.flags & AT == 0 {
        return Err("AT flag not set on a registration".into());
    }
    if ad.trailing != 0 {
        return Err("authenticator data has trailing bytes".into());
    }
    let att = ad.att.as_ref().ok_or("no attested credential data")?;
    if att.cred_id.as_slice() != cred.raw_id.as_slice() {
        return Err("attested credential id differs from rawId".into());
    }
    if cred.id != b64url(&cred.raw_id) {
        return Err(format!("id {:?} is not base64url(rawId) {:?}", cred.id, b64url(&cred.raw_id)));
    }
    let (x, y) = authdata::public_es256_key(&att.key)?;
    if crate::model::util::verifying_key(&x, &y).is_none() {
        return Err("attested public key is not a point on P-256".into());
    }
    let der = cred.response.public_key.as_ref().ok_or("response.publicKey missing")?;
    let (dx, dy) = spki_point(der).ok_or("response.publicKey is not a P-256 SubjectPublicKeyInfo")?;
    if dx != x || dy != y {
        return Err("DER public key and COSE public key are different points".into());
    }
    if cred.response.public_key_algorithm != -7 {
        return Err(format!("publicKeyAlgorithm is {}, the key is ES256 (-7)", cred.response.public_key_algorithm));
    }
    Ok((att.cred_id.clone(), x, y))
}

/// The relying-party checks on a successful assertion (C03).
pub fn verify_assertion(res: &AuthenticatedPublicKeyCredential, site: &Site, op: &AuthOp, model: &[ModelCred]) -> Result<usize, String> {
    verify_assertion_opts(res, site, op, model, true)
}

/// `judge_rp` = false: the RP binding of the credential used is left to C05 (stores outside the lookup contract)
pub fn verify_assertion_opts(res: &AuthenticatedPublicKeyCredential, site: &Site, op: &AuthOp, model: &[ModelCred], judge_rp: bool) -> Result<usize, String> {
    check_client_data(&res.response.client_data_json, "webauthn.get", &op.challenge, &site.expected_origin(), &op.cd)?;
    if res.id != b64url(&res.raw_id) {
        return Err(format!("id {:?} is not base64url(rawId)", res.id));
    }
    let Some(mi) = model.iter().position(|m| m.id.as_slice() == res.raw_id.as_slice()) else {
        return Err(format!("returned credential id {} was never registered", crate::core::hex(&res.raw_id)));
    };
    let m = &model[mi];
    if judge_rp && m.rp != site.effective {
        return Err(format!("credential used belongs to RP {:?}, the ceremony is for {:?}", m.rp, site.effective));
    }
    let ad = authdata::decode(&res.response.authenticator_data)?;
    if ad.rp_id_hash != sha256(site.effective.as_bytes()) {
        return Err(format!("assertion rpIdHash is not SHA-256({:?})", site.effective));
    }
    if ad.flags & AT != 0 || ad.att.is_some() {
        return Err("assertion authenticator data carries attested credential data".into());
    }
    if ad.flags & ED == 0 && res.response.authenticator_data.len() != 37 {
        return Err(format!("assertion authenticator data is {} bytes without extensions", res.response.authenticator_data.len()));
    }
    if ad.trailing != 0 {
        return Err("assertion authenticator data has trailing bytes".into());
    }
    let hash: Vec<u8> = match &op.cd {
        CdMode::Hash(h) => h.clone(),
        _ => sha256(&res.response.client_data_json).to_vec(),
    };
    let mut msg = res.response.authenticator_data.to_vec();
    msg.extend_from_slice(&hash);
    verify_der(&m.x, &m.y, &msg, &res.response.signature).map_err(|e| format!("{e} under the key registered for {} over authData || clientDataHash", crate::core::hex(&m.id)))?;
    let got_uh = res.response.user_handle.as_ref().map(|b| b.to_vec());
    if got_uh != m.user_handle {
        return Err(format!("user handle returned {:?} differs from the stored one {:?}", got_uh.map(|b| crate::core::hex(&b)), m.user_handle.as_ref().map(|b| crate::core::hex(b))));
    }
    Ok(mi)
}

pub fn allow_list(sel: &AllowSel, model: &[ModelCred]) -> Option<Vec<PublicKeyCredentialDescriptor>> {
    match sel {
        AllowSel::Absent => None,
        AllowSel::Empty => Some(vec![]),
        AllowSel::Ids(ids) => Some(
            ids.iter()
                .map(|r| match r {
                    IdRef::Known(k, ty) => {
                        if model.is_empty() {
                            cer::descriptor_ty(b"no-credential-yet", *ty)
                        } else {
                            // transport hints vary with the selector (they must not influence eligibility)
                            cer::descriptor_full(&model[idx(*k, model.len())].id, *ty, (*k % 7) as u8)
                        }
                    }
                    IdRef::Unknown(b, ty) => cer::descriptor_full(b, *ty, b.len() as u8),
                })
                .collect(),
        ),
    }
}

fn selection_of(op: &RegOp) -> Option<passkey_types::webauthn::AuthenticatorSelectionCriteria> {
    use passkey_types::webauthn::ResidentKeyRequirement as R;
    let uv = cer::uv_req(op.uv);
    match op.rk {
        0 if op.uv % 4 == 3 => None,
        0 => Some(cer::selection(None, false, uv)),
        1 => Some(cer::selection(Some(R::Discouraged), false, uv)),
        2 => Some(cer::selection(Some(R::Preferred), false, uv)),
        3 => Some(cer::selection(Some(R::Required), true, uv)),
        _ => Some(cer::selection(None, true, uv)),
    }
}

pub struct Runner<S: StoreAccess> {
    pub client: Client<S, ScriptedUv, HProvider>,
    pub uv: ScriptedUv,
    pub model: Vec<ModelCred>,
    pub seen_ids: HashSet<Vec<u8>>,
    pub kind: StoreKind,
    pub cfg: AuthCfg,
    pub disc: Disc,
    pub stats: Stats,
    pub oracles: Oracles,
    pub faulted: bool,
}

impl<S: StoreAccess> Runner<S> {
    pub fn new(store: S, kind: StoreKind, disc: Disc, cfg: &AuthCfg, oracles: Oracles) -> Self {
        let uv = ScriptedUv::new(UvScript::verified());
        let auth = cer::build_authenticator(store, uv.clone(), cfg);
        let client = Client::new_with_custom_tld_provider(auth, HProvider::new(ProviderKind::Default)).allows_insecure_localhost(true);
        Runner { client, uv, model: vec![], seen_ids: HashSet::new(), kind, cfg: cfg.clone(), disc, stats: Stats::default(), oracles, faulted: false }
    }

    pub fn store_snapshot(&self) -> Vec<PkSnap> {
        self.client.authenticator().store().snapshot()
    }

    /// put a pre-existing credential into the store and the model
    pub fn preload(&mut self, seed: u64, site: usize, counter: Option<u32>, with_handle: bool) {
        let ctap_only = Site { url: None, android_host: None, rp: None, effective: CTAP_ONLY_RPS[site % CTAP_ONLY_RPS.len()] };
        let s = if site >= 100 { &ctap_only } else { &SITES[site % SITES.len()] };
        let id = sha256(&[b"preload".as_slice(), &seed.to_be_bytes()].concat())[..16 + (seed as usize % 17)].to_vec();
        let uh = with_handle.then(|| format!("handle-{}", seed % 3).into_bytes());
        // every third pre-loaded credential holds no hmac-secret material (a PRF request on it is refused)
        let hm = (self.cfg.hmac.enabled() && seed % 3 != 2).then(|| (sha256(&[b"uv".as_slice(), &seed.to_be_bytes()].concat()).to_vec(), self.cfg.hmac.without_uv().then(|| sha256(&[b"nouv".as_slice(), &seed.to_be_bytes()].concat()).to_vec())));
        let pk = crate::model::util::make_passkey(seed, s.effective, &id, uh.as_deref(), counter, hm);
        let sn = snap(&pk);
        self.client.authenticator_mut().store_mut().put(pk);
        self.seen_ids.insert(id.clone());
        self.model.push(ModelCred {
            rp: s.effective.to_string(),
            id,
            x: sn.x.unwrap(),
            y: sn.y.unwrap(),
            user_handle: uh,
            counter,
            assertions: 0,
            started_near_max: counter.is_some_and(|c| c >= u32::MAX - 2),
        });
    }

    pub fn register(&mut self, op: &RegOp) -> Result<(), String> {
        let site = &SITES[op.site % SITES.len()];
        let before = self.store_snapshot();
        let exclude = match (op.exclude % 4, self.kind) {
            (0, _) => None,
            (1, _) => Some(vec![]),
            (3, k) if k.is_ref() => Some(self.model.iter().filter(|m| m.rp != site.effective).take(2).map(|m| cer::descriptor_full(&m.id, true, op.uv)).chain([cer::descriptor(b"excluded-but-never-held")]).collect()),
            _ => Some(vec![cer::descriptor(b"excluded-but-never-held"), cer::descriptor_full(b"another-id-nobody-holds", op.uv % 2 == 0, op.uv)]),
        };
        let ext = (op.ext & 7 != 0).then(|| passkey_types::webauthn::AuthenticationExtensionsClientInputs {
            cred_props: (op.ext & 1 != 0).then_some(true),
            prf: (op.ext & 2 != 0).then(|| passkey_types::webauthn::AuthenticationExtensionsPrfInputs { eval: Some(passkey_types::webauthn::AuthenticationExtensionsPrfValues { first: op.challenge.clone().into(), second: (op.ext & 4 != 0).then(|| op.user_id.clone().into()) }), eval_by_credential: None }),
            prf_already_hashed: None,
        });
        let mut req = cer::creation_options(site.rp, &op.challenge, &op.user_id, &op.user_name, &op.algs, exclude, selection_of(op), ext);
        {
            use passkey_types::webauthn::AttestationConveyancePreference as A;
            req.public_key.attestation = [A::None, A::Indirect, A::Direct, A::Enterprise][op.attestation as usize % 4];
        }
        for (i, p) in req.public_key.pub_key_cred_params.iter_mut().enumerate() {
            if i < 8 && op.unknown_type_mask & (1 << i) != 0 && p.alg != coset::iana::Algorithm::ES256 {
                p.ty = passkey_types::webauthn::PublicKeyCredentialType::Unknown;
            }
        }
        let origin = site.origin();
        let res = catch_unwind(AssertUnwindSafe(|| match &op.cd {
            CdMode::Default => block_on(self.client.register(origin, req, DefaultClientData)),
            CdMode::Extra(v) => block_on(self.client.register(origin, req, DefaultClientDataWithExtra(v.clone()))),
            CdMode::Hash(h) => block_on(self.client.register(origin, req, DefaultClientDataWithCustomHash(h.clone()))),
        }))
        .map_err(|_| format!("register panicked: {}", crate::last_panic()))?;
        let after = self.store_snapshot();
        let supported = op.algs.is_empty() || op.algs.iter().any(|a| *a == -7);
        match res {
            Ok(cred) => {
                self.stats.reg_ok += 1;
                if self.faulted && self.kind.is_ref() && self.oracles.c02 && supported && after == before {
                    return Err("the store refused to save the new credential but the registration reports success (nothing was added)".into());
                }
                let (id, x, y) = if self.oracles.c02 {
                    if !supported {
                        return Err(format!("registration succeeded although the preference list {:?} has no supported algorithm", op.algs));
                    }
                    verify_registration(&cred, site, op)?
                } else {
                    // still need the key for the model
                    let ad = authdata::decode(&cred.response.authenticator_data)?;
                    let att = ad.att.ok_or("no attested credential data")?;
                    let (x, y) = authdata::public_es256_key(&att.key)?;
                    (att.cred_id, x, y)
                };
                // store delta
                let new: Vec<&PkSnap> = after.iter().filter(|s| !before.contains(s)).collect();
                let gone: Vec<&PkSnap> = before.iter().filter(|s| !after.contains(s)).collect();
                let rec = match self.kind {
                    StoreKind::OptionSlot => {
                        if after.len() != 1 {
                            return Err("the single-slot store does not hold the new credential".into());
                        }
                        &after[0]
                    }
                    _ => {
                        if self.oracles.c02 && (new.len() != 1 || !gone.is_empty() || after.len() != before.len() + 1) {
                            return Err(format!("a successful registration must add exactly one credential: {} new, {} changed/removed, store {} -> {}", new.len(), gone.len(), before.len(), after.len()));
                        }
                        match new.first() {
                            Some(r) => *r,
                            None => return Err("no new record in the store after a successful registration".into()),
                        }
                    }
                };
                if self.oracles.c02 {
                    if rec.id != id {
                        return Err("the stored credential id differs from the returned one".into());
                    }
                    let d = rec.d.as_ref().ok_or("stored credential has no private key")?;
                    let (sx, sy) = public_from_scalar(d).ok_or("stored private key is not a valid scalar")?;
                    if sx != x || sy != y {
                        return Err("the stored private key does not match the returned public key".into());
                    }
                    if rec.rp_id != site.effective {
                        return Err(format!("stored RP ID {:?} is not the effective RP ID {:?}", rec.rp_id, site.effective));
                    }
                    let want_len = cer::expected_id_len(self.cfg.id_len);
                    if rec.id.len() != want_len {
                        return Err(format!("credential id has {} bytes, configured length is {want_len}", rec.id.len()));
                    }
                    if self.seen_ids.contains(&rec.id) {
                        return Err("credential id is not fresh: it was already used in this history".into());
                    }
                }
                if self.oracles.c08 {
                    if rec.counter != self.cfg.counter.then_some(0) {
                        return Err(format!("stored counter {:?} for counter setting {}", rec.counter, self.cfg.counter));
                    }
                    let ad = authdata::decode(&cred.response.authenticator_data)?;
                    if ad.counter != 0 {
                        return Err(format!("registration reports counter {}, expected 0", ad.counter));
                    }
                }
                self.seen_ids.insert(rec.id.clone());
                if self.kind == StoreKind::OptionSlot {
                    self.model.clear();
                }
                self.model.push(ModelCred { rp: rec.rp_id.clone(), id: rec.id.clone(), x, y, user_handle: rec.user_handle.clone(), counter: rec.counter, assertions: 0, started_near_max: false });
                Ok(())
            }
            Err(e) => {
                if !supported {
                    self.stats.reg_alg_fail += 1;
                } else {
                    self.stats.reg_unexpected_err += 1;
                    self.stats.last_error = format!("register: {e:?}");
                    if self.oracles.c02 && self.disc != Disc::OnlyNonDiscoverable && !self.faulted {
                        // the user consents, the store can hold the credential and the list has a supported entry
                        return Err(format!("registration failed with {e:?} although the preference list {:?} (unknown-type mask {:#010b}) contains an entry the authenticator supports", op.algs, op.unknown_type_mask));
                    }
                }
                if self.oracles.c02 && after != before {
                    return Err(format!("registration failed with {e:?} but the store changed"));
                }
                Ok(())
            }
        }
    }

    pub fn authenticate(&mut self, op: &AuthOp) -> Result<(), String> {
        let site = &SITES[op.site % SITES.len()];
        let allow = allow_list(&op.allow, &self.model);
        // eligible credentials per the statement
        let named: Option<Vec<Vec<u8>>> = allow.as_ref().filter(|l| !l.is_empty()).map(|l| l.iter().map(|d| d.id.to_vec()).collect());
        let eligible: Vec<usize> = self.model.iter().enumerate().filter(|(_, m)| m.rp == site.effective && named.as_ref().map_or(true, |n| n.contains(&m.id))).map(|(i, _)| i).collect();
        let before = self.store_snapshot();
        self.client.authenticator().store().clear_log();
        let ext = op.prf.as_ref().map(|i| passkey_types::webauthn::AuthenticationExtensionsClientInputs {
            cred_props: None,
            prf: Some(passkey_types::webauthn::AuthenticationExtensionsPrfInputs { eval: Some(passkey_types::webauthn::AuthenticationExtensionsPrfValues { first: i.clone().into(), second: None }), eval_by_credential: None }),
            prf_already_hashed: None,
        });
        let req = cer::request_options(site.rp, &op.challenge, allow, cer::uv_req(op.uv), ext);
        // the user gives what each request asks for: verified when verification is requested, present otherwise (a client
        // may turn to the authenticator more than once within a ceremony)
        self.uv.set_as_asked(true);
        let origin = site.origin();
        let res = catch_unwind(AssertUnwindSafe(|| match &op.cd {
            CdMode::Default => block_on(self.client.authenticate(origin, req, DefaultClientData)),
            CdMode::Extra(v) => block_on(self.client.authenticate(origin, req, DefaultClientDataWithExtra(v.clone()))),
            CdMode::Hash(h) => block_on(self.client.authenticate(origin, req, DefaultClientDataWithCustomHash(h.clone()))),
        }))
        .map_err(|_| format!("authenticate panicked: {}", crate::last_panic()));
        self.uv.set_as_asked(false);
        let res = res?;
        let after = self.store_snapshot();
        match res {
            Ok(r) => {
                self.stats.auth_ok += 1;
                let mi = if self.oracles.c03 {
                    let mi = verify_assertion(&r, site, op, &self.model)?;
                    if !eligible.contains(&mi) {
                        return Err(format!("credential {} was used but is not eligible (RP {:?}, allow list {:?})", crate::core::hex(&self.model[mi].id), site.effective, named.as_ref().map(|n| n.iter().map(|i| crate::core::hex(i)).collect::<Vec<_>>())));
                    }
                    mi
                } else {
                    match self.model.iter().position(|m| m.id.as_slice() == r.raw_id.as_slice()) {
                        Some(i) => i,
                        None => return Err("assertion with an unknown credential id".into()),
                    }
                };
                if self.oracles.c08 {
                    self.check_counter(mi, &r.response.authenticator_data, &before, &after)?;
                } else if let Some(c) = self.model[mi].counter {
                    self.model[mi].counter = Some(c.saturating_add(1));
                }
                self.model[mi].assertions += 1;
                Ok(())
            }
            Err(e) => {
                // a failed authentication may have advanced the selected credential's counter by one (C07)
                for m in self.model.iter_mut() {
                    if let (Some(a), Some(prev)) = (after.iter().find(|s| s.id == m.id), m.counter) {
                        if a.counter == Some(prev.saturating_add(1)) {
                            m.counter = a.counter;
                        } else if self.oracles.c08 && a.counter.is_some_and(|c| c < prev) {
                            // the next success would then report a value that is not greater than the last one
                            return Err(format!("a failed authentication ({e:?}) moved the stored counter of credential {} backwards: {prev} -> {:?}", crate::core::hex(&m.id), a.counter));
                        }
                    }
                }
                if eligible.is_empty() {
                    self.stats.auth_not_found += 1;
                    if self.oracles.c03 && e != WebauthnError::CredentialNotFound {
                        return Err(format!("no eligible credential and the user consents: expected CredentialNotFound, got {e:?}"));
                    }
                    if self.oracles.c08 && after != before {
                        return Err("a failed authentication without an eligible credential changed the store".into());
                    }
                } else if op.prf.is_some() && self.cfg.hmac.enabled() {
                    // a PRF request on a credential without (suitable) secrets is refused by the authenticator
                    self.stats.auth_prf_refused += 1;
                } else if self.faulted {
                    self.stats.auth_faulted_err += 1;
                    if self.oracles.c08 && after != before {
                        return Err("the store rejected the counter update but its content changed".into());
                    }
                } else {
                    self.stats.auth_unexpected_err += 1;
                    self.stats.last_error = format!("authenticate: {e:?}");
                }
                Ok(())
            }
        }
    }

    /// CTAP2-level assertion (the client always sends up=true; here up may be false)
    pub fn ctap_authenticate(&mut self, target: u16, up: bool, uv: bool, extra_uv: bool) -> Result<(), String> {
        if self.model.is_empty() {
            return Ok(());
        }
        let mi = idx(target, self.model.len());
        let (rp, id) = (self.model[mi].rp.clone(), self.model[mi].id.clone());
        let before = self.store_snapshot();
        self.client.authenticator().store().clear_log();
        self.uv.set(UvScript { presence_enabled: true, verification_enabled: Some(true), outcome: Ok((up, uv || extra_uv)), yields: 0 });
        let req = passkey_types::ctap2::get_assertion::Request {
            rp_id: rp,
            client_data_hash: vec![0x5A; 32].into(),
            allow_list: Some(vec![cer::descriptor(&id)]),
            extensions: None,
            options: passkey_types::ctap2::get_assertion::Options { rk: false, up, uv },
            pin_auth: None,
            pin_protocol: None,
        };
        let res = catch_unwind(AssertUnwindSafe(|| block_on(self.client.authenticator_mut().get_assertion(req)))).map_err(|_| format!("get_assertion panicked: {}", crate::last_panic()));
        self.uv.set(UvScript::verified());
        let res = res?;
        let after = self.store_snapshot();
        match res {
            Ok(r) => {
                self.stats.auth_ok += 1;
                let used = r.credential.as_ref().map(|c| c.id.to_vec()).unwrap_or_default();
                if used != id {
                    return Err("a different credential than the one named was used".into());
                }
                if self.oracles.c03 {
                    let bytes = r.auth_data.to_vec();
                    let ad = authdata::decode(&bytes)?;
                    if ad.rp_id_hash != sha256(self.model[mi].rp.as_bytes()) {
                        return Err(format!("authenticator data of a CTAP2 assertion for RP ID {:?} does not carry SHA-256 of that RP ID", self.model[mi].rp));
                    }
                    if ad.att.is_some() {
                        return Err("authenticator data of an assertion carries attested credential data".into());
                    }
                    let mut msg = bytes.clone();
                    msg.extend_from_slice(&[0x5A; 32]);
                    crate::model::util::verify_der(&self.model[mi].x, &self.model[mi].y, &msg, &r.signature).map_err(|e| format!("CTAP2 assertion: {e}"))?;
                    let uh = r.user.as_ref().map(|u| u.id.to_vec());
                    if uh != self.model[mi].user_handle {
                        return Err("the user handle of a CTAP2 assertion is not the stored one".into());
                    }
                }
                if self.oracles.c08 {
                    self.check_counter(mi, &r.auth_data.to_vec(), &before, &after)?;
                } else if let Some(c) = self.model[mi].counter {
                    self.model[mi].counter = Some(c.saturating_add(1));
                }
                self.model[mi].assertions += 1;
                Ok(())
            }
            Err(e) => {
                // no statement promises that such an assertion succeeds (C03 constrains the successful ones): a refusal is counted, and the counter
                // model is brought in line with the store (a refused assertion may have advanced it by one)
                self.stats.auth_unexpected_err += 1;
                self.stats.last_error = format!("CTAP2 getAssertion: 0x{:02X}", u8::from(e));
                if let (Some(a), Some(prev)) = (after.iter().find(|s| s.id == id), self.model[mi].counter) {
                    if a.counter == Some(prev.saturating_add(1)) {
                        self.model[mi].counter = a.counter;
                    }
                }
                Ok(())
            }
        }
    }

    fn check_counter(&mut self, mi: usize, auth_data: &[u8], before: &[PkSnap], after: &[PkSnap]) -> Result<(), String> {
        let ad = authdata::decode(auth_data)?;
        let id = self.model[mi].id.clone();
        let stored_after = after.iter().find(|s| s.id == id).ok_or("credential vanished from the store")?;
        let stored_before = before.iter().find(|s| s.id == id).ok_or("credential was not in the store before")?;
        match self.model[mi].counter {
            None => {
                if ad.counter != 0 {
                    return Err(format!("credential without counter reports counter {}", ad.counter));
                }
                if stored_after != stored_before {
                    return Err("credential without counter was rewritten by an assertion".into());
                }
                let updates = self.client.authenticator().store().update_log().iter().filter(|c| matches!(c, StoreCall::Update { .. })).count();
                if updates != 0 {
                    return Err("update_credential was called for a credential without counter".into());
                }
            }
            Some(prev) => {
                self.stats.counted_assertions += 1;
                if prev < u32::MAX {
                    if ad.counter != prev + 1 {
                        return Err(format!("assertion reports counter {}, previous value for this credential was {prev}", ad.counter));
                    }
                } else if ad.counter < prev {
                    return Err(format!("counter wrapped from {prev} to {}", ad.counter));
                }
                if stored_after.counter != Some(ad.counter) {
                    return Err(format!("assertion reports counter {} but the store holds {:?}", ad.counter, stored_after.counter));
                }
                // nothing but the counter may change
                let mut expect = stored_before.clone();
                expect.counter = stored_after.counter;
                if &expect != stored_after {
                    return Err("the counter update altered other fields of the stored credential".into());
                }
                self.model[mi].counter = Some(ad.counter);
            }
        }
        // other records untouched
        for b in before {
            if b.id != id && !after.contains(b) {
                return Err("an assertion altered another credential's record".into());
            }
        }
        Ok(())
    }
}

/// Run a whole history; returns the stats or the first violation.
pub fn run_history(h: &History, oracles: Oracles) -> Result<Stats, String> {
    fn go<S: StoreAccess>(store: S, h: &History, oracles: Oracles) -> Result<Stats, String> {
        let mut r = Runner::new(store, h.store, h.disc, &h.cfg, oracles);
        for (k, (site, counter, uh)) in h.preload.iter().enumerate() {
            if h.store == StoreKind::OptionSlot && k > 0 {
                break;
            }
            r.preload(1000 + k as u64, *site, *counter, *uh);
        }
        for (i, op) in h.ops.iter().enumerate() {
            match op {
                Op::Reg(o) => r.register(o).map_err(|e| format!("op #{i} (register): {e}"))?,
                Op::Auth(o) => r.authenticate(o).map_err(|e| format!("op #{i} (authenticate): {e}"))?,
                Op::RegSaveFault(o, code) => {
                    r.client.authenticator().store().set_save_fault(Some(*code));
                    r.faulted = true;
                    let res = r.register(o);
                    r.faulted = false;
                    r.client.authenticator().store().set_save_fault(None);
                    res.map_err(|e| format!("op #{i} (register while the store refuses the save with 0x{code:02X}): {e}"))?
                }
                Op::AuthUpdateFault(o, code) => {
                    r.client.authenticator().store().set_update_fault(Some(*code));
                    r.faulted = true;
                    let res = r.authenticate(o);
                    r.faulted = false;
                    r.client.authenticator().store().set_update_fault(None);
                    res.map_err(|e| format!("op #{i} (authenticate while the store rejects the counter update with 0x{code:02X}): {e}"))?
                }
                Op::CtapAuth { target, up, uv, extra_uv } => r.ctap_authenticate(*target, *up, *uv, *extra_uv).map_err(|e| format!("op #{i} (CTAP2 getAssertion up={up} uv={uv}): {e}"))?,
            }
        }
        Ok(r.stats)
    }
    match h.store {
        StoreKind::Ref => go(RefStore::new(h.disc), h, oracles),
        StoreKind::Memory => go(MemoryStore::new(), h, oracles),
        StoreKind::OptionSlot => go(None::<Passkey>, h, oracles),
        StoreKind::RefInMutex => go(tokio::sync::Mutex::new(RefStore::new(h.disc)), h, oracles),
        StoreKind::RefInRwLock => go(tokio::sync::RwLock::new(RefStore::new(h.disc)), h, oracles),
        StoreKind::RefInArcMutex => go(std::sync::Arc::new(tokio::sync::Mutex::new(RefStore::new(h.disc))), h, oracles),
        StoreKind::RefInArcRwLock => go(std::sync::Arc::new(tokio::sync::RwLock::new(RefStore::new(h.disc))), h, oracles),
    }
}

// ------------------------------------------------------------------ strategies

pub fn bytes(max: usize) -> impl Strategy<Value = Vec<u8>> {
    prop_oneof![
        1 => Just(vec![]),
        6 => proptest::collection::vec(any::<u8>(), 0..=max),
        1 => proptest::collection::vec(any::<u8>(), max..=max),
    ]
}

pub fn json_extra() -> impl Strategy<Value = Value> {
    let leaf = prop_oneof![
        Just(Value::Null),
        any::<bool>().prop_map(Value::Bool),
        any::<i32>().prop_map(|i| json!(i)),
        "[ -~]{0,12}".prop_map(Value::String),
        "\\PC{0,6}".prop_map(Value::String),
    ];
    let val = leaf.prop_recursive(3, 24, 4, |inner| {
        prop_oneof![
            proptest::collection::vec(inner.clone(), 0..4).prop_map(Value::Array),
            proptest::collection::vec(("[a-zA-Z_][a-zA-Z0-9_]{0,7}", inner), 0..4).prop_map(|kv| Value::Object(kv.into_iter().collect())),
        ]
    });
    proptest::collection::vec(("[a-zA-Z_][a-zA-Z0-9_]{0,9}", val), 0..5).prop_map(|kv| {
        let mut m = serde_json::Map::new();
        for (k, v) in kv {
            if !["type", "challenge", "origin", "crossOrigin"].contains(&k.as_str()) {
                m.insert(k, v);
            }
        }
        Value::Object(m)
    })
}

pub fn cd_mode() -> impl Strategy<Value = CdMode> {
    prop_oneof![
        3 => Just(CdMode::Default),
        2 => json_extra().prop_map(CdMode::Extra),
        2 => bytes(48).prop_map(CdMode::Hash),
    ]
}

pub fn alg_list() -> impl Strategy<Value = Vec<i64>> {
    prop_oneof![
        2 => Just(vec![]),
        2 => Just(vec![-7]),
        1 => Just(vec![-7, -257]),
        1 => Just(vec![-257, -7]),
        1 => Just(vec![-257, -8, -7, -7]),
        1 => Just(vec![-257]),
        1 => Just(vec![-8, -35, -36]),
        2 => proptest::collection::vec(prop_oneof![Just(-7i64), Just(-257), Just(-8), Just(-35), Just(-36), Just(-37), Just(-65535), Just(1), Just(-47)], 0..6),
    ]
}

pub fn reg_op(sites: Vec<usize>) -> impl Strategy<Value = RegOp> {
    let n = sites.len();
    (any::<u16>(), bytes(128), bytes(64), "\\PC{0,12}", alg_list(), cd_mode(), any::<u8>(), 0u8..5, prop_oneof![2 => Just(0u8), 1 => any::<u8>()], (prop_oneof![3 => Just(0u8), 2 => 0u8..8], prop_oneof![3 => Just(0u8), 2 => 0u8..4])).prop_map(move |(s, challenge, user_id, user_name, algs, cd, uv, rk, unknown_type_mask, (ext, exclude))| RegOp { site: sites[idx(s, n)], attestation: if uv % 2 == 0 { 0 } else { (uv / 2) % 4 }, challenge, user_id, user_name, algs, cd, uv, rk, unknown_type_mask, ext, exclude })
}

pub fn allow_sel() -> impl Strategy<Value = AllowSel> {
    let idref = prop_oneof![
        4 => (any::<u16>(), proptest::bool::weighted(0.85)).prop_map(|(k, t)| IdRef::Known(k, t)),
        2 => (proptest::collection::vec(any::<u8>(), 0..40), proptest::bool::weighted(0.7)).prop_map(|(b, t)| IdRef::Unknown(b, t)),
    ];
    prop_oneof![
        2 => Just(AllowSel::Absent),
        1 => Just(AllowSel::Empty),
        4 => proptest::collection::vec(idref, 1..5).prop_map(AllowSel::Ids),
    ]
}

pub fn auth_op(sites: Vec<usize>) -> impl Strategy<Value = AuthOp> {
    let n = sites.len();
    (any::<u16>(), bytes(128), allow_sel(), cd_mode(), any::<u8>()).prop_map(move |(s, challenge, allow, cd, uv)| AuthOp { site: sites[idx(s, n)], challenge, allow, cd, uv, prf: None })
}

pub fn auth_cfg() -> impl Strategy<Value = AuthCfg> {
    (any::<bool>(), proptest::option::weighted(0.7, any::<u8>()), any::<[u8; 16]>(), proptest::bool::weighted(0.5), prop_oneof![3 => Just(0u8), 1 => 1u8..4]).prop_map(|(counter, id_len, aaguid, zero, transports)| AuthCfg { counter, id_len, hmac: HmacCfg::None, aaguid: if zero { [0; 16] } else { aaguid }, transports })
}
