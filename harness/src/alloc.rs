//! Counting global allocator: per-thread largest single request and peak live bytes; requests
//! above 64 MiB are served from mmap(MAP_NORESERVE) so that a disproportionate reservation is
//! recorded and judged instead of aborting the process.

use std::alloc::{GlobalAlloc, Layout, System};
use std::cell::Cell;

pub struct Counting;

const BIG: usize = 64 << 20;

#[derive(Clone, Copy, Default)]
pub struct Stats {
    pub max_request: usize,
    pub live: isize,
    pub peak: isize,
}

thread_local! {
    static STATS: Cell<Stats> = const { Cell::new(Stats { max_request: 0, live: 0, peak: 0 }) };
}

#[inline]
fn on_alloc(size: usize) {
    let _ = STATS.try_with(|s| {
        let mut v = s.get();
        if size > v.max_request {
            v.max_request = size;
        }
        v.live += size as isize;
        if v.live > v.peak {
            v.peak = v.live;
        }
        s.set(v);
    });
}

#[inline]
fn on_free(size: usize) {
    let _ = STATS.try_with(|s| {
        let mut v = s.get();
        v.live -= size as isize;
        s.set(v);
    });
}

pub fn reset() {
    STATS.with(|s| s.set(Stats::default()));
}

pub fn get() -> Stats {
    STATS.with(|s| s.get())
}

unsafe fn big_alloc(size: usize) -> *mut u8 {
    let p = libc::mmap(std::ptr::null_mut(), size, libc::PROT_READ | libc::PROT_WRITE, libc::MAP_PRIVATE | libc::MAP_ANONYMOUS | libc::MAP_NORESERVE, -1, 0);
    if p == libc::MAP_FAILED {
        std::ptr::null_mut()
    } else {
        p as *mut u8
    }
}

unsafe impl GlobalAlloc for Counting {
    unsafe fn alloc(&self, layout: Layout) -> *mut u8 {
        on_alloc(layout.size());
        if layout.size() > BIG {
            big_alloc(layout.size())
        } else {
            System.alloc(layout)
        }
    }
    unsafe fn alloc_zeroed(&self, layout: Layout) -> *mut u8 {
        on_alloc(layout.size());
        if layout.size() > BIG {
            big_alloc(layout.size())
        } else {
            System.alloc_zeroed(layout)
        }
    }
    unsafe fn dealloc(&self, ptr: *mut u8, layout: Layout) {
        on_free(layout.size());
        if layout.size() > BIG {
            libc::munmap(ptr as *mut libc::c_void, layout.size());
        } else {
            System.dealloc(ptr, layout)
        }
    }
    unsafe fn realloc(&self, ptr: *mut u8, layout: Layout, new_size: usize) -> *mut u8 {
        if layout.size() <= BIG && new_size <= BIG {
            on_free(layout.size());
            on_alloc(new_size);
            System.realloc(ptr, layout, new_size)
        } else {
            let new_layout = Layout::from_size_align_unchecked(new_size, layout.align());
            let np = self.alloc(new_layout);
            if !np.is_null() {
                std::ptr::copy_nonoverlapping(ptr, np, layout.size().min(new_size));
                self.dealloc(ptr, layout);
            }
            np
        }
    }
}

/// CPU time consumed by the calling thread, in nanoseconds
pub fn thread_cpu_ns() -> u64 {
    let mut ts = libc::timespec { tv_sec: 0, tv_nsec: 0 };
    unsafe {
        libc::clock_gettime(libc::CLOCK_THREAD_CPUTIME_ID, &mut ts);
    }
    ts.tv_sec as u64 * 1_000_000_000 + ts.tv_nsec as u64
}

/// CPU time of another thread
pub fn cpu_ns_of(thread: libc::pthread_t) -> Option<u64> {
    let mut cid: libc::clockid_t = 0;
    unsafe {
        if libc::pthread_getcpuclockid(thread, &mut cid) != 0 {
            return None;
        }
        let mut ts = libc::timespec { tv_sec: 0, tv_nsec: 0 };
        if libc::clock_gettime(cid, &mut ts) != 0 {
            return None;
        }
        Some(ts.tv_sec as u64 * 1_000_000_000 + ts.tv_nsec as u64)
    }
}
