//! Byte-level fuzz entry points with the semantic oracle inside the target. Each function panics
//! on an oracle violation (libFuzzer reports it as a crash; `pkverif --replay <artifact>` runs
//! the same function under catch_unwind).

use passkey_transports::hid::{ChannelHandler, Command, Message};
use passkey_types::ctap2::extensions::HmacGetSecretInput;
use passkey_types::ctap2::{get_assertion, get_info, make_credential, AuthenticatorData};
use passkey_types::u2f::{AuthenticationParameter, AuthenticationRequest, RegisterRequest, Request, RequestPayload};
use passkey_types::webauthn::{AuthenticatedPublicKeyCredential, CollectedClientData, CreatedPublicKeyCredential, CredentialCreationOptions, CredentialRequestOptions};
use serde::de::DeserializeOwned;
use serde::Serialize;

use crate::props::c13::norm;

pub const TARGETS: [&str; 6] = ["authdata", "ctap_cbor", "webauthn_json", "hid", "u2f", "psl"];

/// which fuzz targets serve which property
pub fn targets_for(id: &str) -> &'static [&'static str] {
    match id {
        "C10" => &["psl"],
        "C12" => &["authdata"],
        "C13" => &["ctap_cbor"],
        "C14" => &["webauthn_json"],
        "C15" => &["authdata", "ctap_cbor", "webauthn_json", "hid", "u2f", "psl"],
        "C16" => &["hid"],
        "C17" => &["u2f"],
        _ => &[],
    }
}

/// memory oracle inside the targets: when the binary's global allocator is the harness's counting allocator (the fuzz
/// targets and pkverif install it), the decode call may not request or hold more than 8 MiB + 256 bytes per input byte
fn mem_guard<T>(len: usize, what: &str, f: impl FnOnce() -> T) -> T {
    crate::alloc::reset();
    let r = f();
    let st = crate::alloc::get();
    let used = (st.max_request as u64).max(st.peak.max(0) as u64);
    let limit = (8u64 << 20) + 256 * len as u64;
    assert!(used <= limit, "{what}: memory out of proportion: largest request {} bytes, peak live {} bytes for an input of {len} bytes (limit {limit})", st.max_request, st.peak);
    r
}

pub fn run_target(name: &str, data: &[u8]) {
    match name {
        "authdata" => authdata(data),
        "ctap_cbor" => ctap_cbor(data),
        "webauthn_json" => webauthn_json(data),
        "hid" => hid(data),
        "u2f" => u2f(data),
        "psl" => psl(data),
        _ => {}
    }
}

/// C12/C15: arbitrary bytes never panic; whatever decodes re-encodes to bytes that decode to an equal value
pub fn authdata(data: &[u8]) {
    if let Ok(v) = mem_guard(data.len(), "AuthenticatorData::from_slice", || AuthenticatorData::from_slice(data)) {
        let bytes = v.to_vec();
        let again = AuthenticatorData::from_slice(&bytes).expect("re-encoding of a decoded value must decode");
        // compared on the bytes (a NaN inside an extension value is not equal to itself), and allowing the generic CBOR
        // reader a second normalising pass (an indefinite-length tag-2 bignum only becomes an integer once re-encoded)
        let b2 = again.to_vec();
        if b2 != bytes {
            let third = AuthenticatorData::from_slice(&b2).expect("re-encoding of a decoded value must decode");
            let b3 = third.to_vec();
            let fourth = AuthenticatorData::from_slice(&b3).expect("re-encoding of a decoded value must decode");
            assert!(fourth.to_vec() == b3, "decode/encode does not settle");
        }
        // layout: the independent decoder must agree on the fixed part
        let view = crate::model::authdata::decode(&bytes).expect("the library's encoding must follow the layout");
        assert_eq!(view.rp_id_hash.as_slice(), v.rp_id_hash());
        assert_eq!(view.counter, v.counter.unwrap_or(0));
        assert_eq!(view.att.is_some(), v.attested_credential_data.is_some());
    }
}

fn cbor_fixpoint<T: Serialize + DeserializeOwned>(data: &[u8]) {
    if let Ok(v) = mem_guard(data.len(), "CBOR decode", || ciborium::de::from_reader::<T, _>(data)) {
        let mut b1 = vec![];
        ciborium::ser::into_writer(&v, &mut b1).expect("a decoded message must serialise");
        let v2: T = ciborium::de::from_reader(b1.as_slice()).expect("the serialisation of a decoded message must decode");
        let mut b2 = vec![];
        ciborium::ser::into_writer(&v2, &mut b2).expect("serialise");
        let n1 = norm(&ciborium::de::from_reader::<ciborium::value::Value, _>(b1.as_slice()).expect("cbor"));
        let n2 = norm(&ciborium::de::from_reader::<ciborium::value::Value, _>(b2.as_slice()).expect("cbor"));
        let ser = |v: &ciborium::value::Value| {
            let mut b = vec![];
            ciborium::ser::into_writer(v, &mut b).expect("serialise");
            b
        };
        assert!(ser(&n1) == ser(&n2), "decode/encode/decode/encode is not a fixpoint");
        // top-level keys are ascending integers
        if let Some(m) = n1.as_map() {
            let keys: Vec<i128> = m.iter().filter_map(|(k, _)| k.as_integer().map(i128::from)).collect();
            assert_eq!(keys.len(), m.len(), "non-integer top-level key");
        }
        let raw = ciborium::de::from_reader::<ciborium::value::Value, _>(b1.as_slice()).expect("cbor");
        if let Some(m) = raw.as_map() {
            let keys: Vec<i128> = m.iter().filter_map(|(k, _)| k.as_integer().map(i128::from)).collect();
            assert!(keys.windows(2).all(|w| w[0] < w[1]), "top-level keys not ascending: {keys:?}");
        }
    }
}

/// C13/C15: the first byte selects the message type
pub fn ctap_cbor(data: &[u8]) {
    let Some((sel, rest)) = data.split_first() else { return };
    match sel % 6 {
        0 => cbor_fixpoint::<make_credential::Request>(rest),
        1 => cbor_fixpoint::<make_credential::Response>(rest),
        2 => cbor_fixpoint::<get_assertion::Request>(rest),
        3 => cbor_fixpoint::<get_assertion::Response>(rest),
        4 => cbor_fixpoint::<get_info::Response>(rest),
        _ => cbor_fixpoint::<HmacGetSecretInput>(rest),
    }
}

/// serde_json (without its float_roundtrip feature) may parse its own rendering of a float to a neighbouring value, so
/// floating-point members are not demanded to be byte-stable: they are blanked before comparing
fn blank_floats(v: &mut serde_json::Value) {
    match v {
        serde_json::Value::Number(n) if !n.is_i64() && !n.is_u64() => *v = serde_json::Value::String("<float>".into()),
        serde_json::Value::Array(a) => a.iter_mut().for_each(blank_floats),
        serde_json::Value::Object(o) => o.values_mut().for_each(blank_floats),
        _ => {}
    }
}

fn json_fixpoint<T: Serialize + DeserializeOwned + std::fmt::Debug>(data: &[u8]) {
    if let Ok(v) = mem_guard(data.len(), "JSON decode", || serde_json::from_slice::<T>(data)) {
        let s1 = serde_json::to_string(&v).expect("a parsed value must serialise");
        let v2: T = serde_json::from_str(&s1).unwrap_or_else(|e| panic!("emitted JSON does not parse back: {e}: {s1}"));
        let s2 = serde_json::to_string(&v2).expect("serialise");
        // object member order of hash maps may differ: compare as JSON values
        let mut j1: serde_json::Value = serde_json::from_str(&s1).expect("json");
        let mut j2: serde_json::Value = serde_json::from_str(&s2).expect("json");
        blank_floats(&mut j1);
        blank_floats(&mut j2);
        assert!(j1 == j2, "parse/serialise/parse/serialise is not a fixpoint: {s1} vs {s2}");
    }
}

/// C14/C15
pub fn webauthn_json(data: &[u8]) {
    let Some((sel, rest)) = data.split_first() else { return };
    match sel % 5 {
        0 => json_fixpoint::<CredentialCreationOptions>(rest),
        1 => json_fixpoint::<CredentialRequestOptions>(rest),
        2 => {
            if let Ok(v) = mem_guard(rest.len(), "client data decode", || serde_json::from_slice::<CollectedClientData>(rest)) {
                let s1 = serde_json::to_string(&v).expect("serialise");
                let v2: CollectedClientData = serde_json::from_str(&s1).expect("client data must re-parse");
                let s2 = serde_json::to_string(&v2).expect("serialise");
                let mut j: serde_json::Value = serde_json::from_str(&s1).expect("json");
                let mut j2: serde_json::Value = serde_json::from_str(&s2).expect("json");
                blank_floats(&mut j);
                blank_floats(&mut j2);
                // member order is part of the comparison (the values keep insertion order)
                assert_eq!(j.to_string(), j2.to_string(), "client data is not stable under parse/serialise");
                let keys: Vec<&String> = j.as_object().expect("object").keys().collect();
                assert!(keys.len() >= 4 && keys[0] == "type" && keys[1] == "challenge" && keys[2] == "origin" && keys[3] == "crossOrigin", "client data member order: {keys:?}");
            }
        }
        3 => json_fixpoint::<CreatedPublicKeyCredential>(rest),
        _ => json_fixpoint::<AuthenticatedPublicKeyCredential>(rest),
    }
}

/// C16/C15: first half = raw packet sequence fed to a receiver (no panic); second mode = a message
/// description that must round-trip through the sender and a fresh receiver
pub fn hid(data: &[u8]) {
    let Some((sel, rest)) = data.split_first() else { return };
    if sel % 2 == 0 {
        mem_guard(rest.len(), "CTAPHID receiver", || {
            let mut h = ChannelHandler::default();
            let mut i = 0;
            while i < rest.len() {
                let l = rest[i] as usize;
                let end = (i + 1 + l).min(rest.len());
                if let Some(m) = h.handle_packet(&rest[i + 1..end]) {
                    assert_eq!(m.payload.len(), m.payload_len, "delivered message is incomplete");
                }
                i = end;
            }
        });
    } else {
        if rest.len() < 7 {
            return;
        }
        let channel = u32::from_be_bytes(rest[..4].try_into().unwrap());
        let cmds = [Command::Msg, Command::Cbor, Command::Init, Command::Ping, Command::Cancel, Command::Err, Command::KeepAlive, Command::Wink, Command::Lock];
        let cmd = cmds[rest[4] as usize % 9];
        let len = u16::from_be_bytes([rest[5], rest[6]]) as usize % 8000;
        let payload: Vec<u8> = (0..len).map(|i| rest[7 + i % (rest.len() - 7).max(1)..].first().copied().unwrap_or(i as u8) ^ (i as u8)).collect();
        let Ok(msg) = Message::new(channel, cmd, &payload) else {
            return;
        };
        assert!(len <= 7609, "payload above the protocol maximum accepted");
        struct Rec(Vec<Vec<u8>>);
        impl std::io::Write for Rec {
            fn write(&mut self, b: &[u8]) -> std::io::Result<usize> {
                self.0.push(b.to_vec());
                Ok(b.len())
            }
            fn flush(&mut self) -> std::io::Result<()> {
                Ok(())
            }
        }
        let mut rec = Rec(vec![]);
        msg.send(&mut rec).expect("send");
        let mut h = ChannelHandler::default();
        let n = rec.0.len();
        for (i, p) in rec.0.iter().enumerate() {
            assert_eq!(p.len(), 64, "packet size");
            let r = h.handle_packet(p);
            if i + 1 < n {
                assert!(r.is_none(), "delivered early");
            } else {
                let m = r.expect("message must be delivered on the last packet");
                assert_eq!(m.channel, channel);
                assert_eq!(m.command.encode(), cmd.encode());
                assert!(m.payload == payload, "payload differs after reassembly");
            }
        }
    }
}

/// C17/C15
pub fn u2f(data: &[u8]) {
    if let Ok(r) = mem_guard(data.len(), "U2F request decode", || Request::try_from(data)) {
        // a parsed request re-encodes to a frame that parses to the same request
        let (ins, p1, payload): (u8, u8, Vec<u8>) = match &r.data {
            RequestPayload::Register(x) => (1, r.p1, [x.challenge.as_slice(), &x.application].concat()),
            RequestPayload::Authenticate(x) => {
                let mut d = [x.challenge.as_slice(), &x.application].concat();
                d.push(x.key_handle.len() as u8);
                d.extend_from_slice(&x.key_handle);
                (2, r.p1, d)
            }
            RequestPayload::Version => (3, r.p1, vec![]),
        };
        let mut frame = vec![0, ins, p1, 0, 0];
        frame.extend_from_slice(&(payload.len() as u16).to_be_bytes());
        frame.extend_from_slice(&payload);
        let r2 = Request::try_from(frame.as_slice()).expect("the canonical frame of a parsed request must parse");
        assert_eq!(format!("{:?}", r2.data), format!("{:?}", r.data), "request changed through re-encoding");
    }
    let _ = RegisterRequest::try_from(data);
    let _ = AuthenticationRequest::try_from(data, AuthenticationParameter::EnforceUserPresence);
}

/// C10/C15: structural oracle on arbitrary strings, agreement on canonical names
pub fn psl(data: &[u8]) {
    let s = String::from_utf8_lossy(data);
    if let Err(e) = crate::props::c10::check_structural(&s) {
        panic!("{e}");
    }
    // every name without empty labels: literal label matching against the list (see props/c10.rs)
    let canonical = !s.is_empty() && !s.split('.').any(|l| l.is_empty());
    if canonical {
        use std::sync::OnceLock;
        static PSL: OnceLock<Option<crate::model::psl::Psl>> = OnceLock::new();
        if let Some(psl) = PSL.get_or_init(|| crate::model::psl::Psl::load().ok()) {
            if let Err(e) = crate::props::c10::check_canonical(psl, &s) {
                panic!("{e}");
            }
        }
    }
}

/// write `n` seed inputs per target (valid encodings from the property generators) below `dir`
pub fn write_corpus(dir: &std::path::Path, n: u64) -> std::io::Result<()> {
    use crate::core::{h64, nth_value};
    use crate::props::{c12, c13, c14, c16, c17};
    use proptest::prelude::*;
    let put = |t: &str, i: u64, b: Vec<u8>| -> std::io::Result<()> {
        let d = dir.join(t);
        std::fs::create_dir_all(&d)?;
        std::fs::write(d.join(format!("seed-{i:03}")), b)
    };
    for i in 0..n {
        let s = |tag: &str| h64(&(tag, i));
        put("authdata", i, nth_value(s("ad"), &c12::encoded()))?;
        let cb = match i % 6 {
            0 => nth_value(s("c0"), &c13::mc_request_bytes()),
            1 => nth_value(s("c1"), &c13::mc_response_bytes()),
            2 => nth_value(s("c2"), &c13::ga_request_bytes()),
            3 => nth_value(s("c3"), &c13::ga_response_bytes()),
            4 => nth_value(s("c4"), &c13::gi_response_bytes()),
            _ => nth_value(s("c5"), &c13::hmac_input_bytes()),
        };
        put("ctap_cbor", i, [vec![(i % 6) as u8], cb].concat())?;
        let (create, text) = nth_value(s("js"), &c14::rendered());
        put("webauthn_json", i, [vec![if create { 0u8 } else { 1 }], text.into_bytes()].concat())?;
        put("hid", i, [vec![0u8], nth_value(s("hid"), &c16::stream_bytes())].concat())?;
        put("u2f", i, nth_value(s("u2f"), &c17::frame_bytes()).1)?;
        put("psl", i, nth_value(s("psl"), &prop_oneof!["[a-z0-9-]{1,8}(\\.[a-z0-9-]{1,8}){0,4}", Just("www.ck".to_string()), Just("a.b.kawasaki.jp".to_string()), Just("foo.xn--55qx5d.cn".to_string())]).into_bytes())?;
    }
    put("webauthn_json", 900, br#"{"type":"webauthn.get","challenge":"Y2hhbGxlbmdl","origin":"https://example.com","crossOrigin":false,"extra":{"a":[1,2]},"zzz":null}"#.to_vec().into_iter().rev().chain([2u8]).rev().collect())?;
    put("hid", 900, vec![1, 1, 2, 3, 4, 3, 0, 200, 9, 9, 9])?;
    // getInfo whose versions / transports element nests a few arrays with huge declared lengths (harmless at this depth;
    // a decoder that reserves by declared length per level shows once the fuzzer repeats the pattern)
    let nest = [0x9bu8, 0, 0, 1, 0, 0, 0, 0, 0].repeat(3);
    put("ctap_cbor", 901, [vec![4u8, 0xa2, 0x01, 0x81], nest.clone(), vec![0x03, 0x50], vec![0u8; 16]].concat())?;
    put("ctap_cbor", 902, [vec![4u8, 0xa3, 0x01, 0x81, 0x68], b"FIDO_2_0".to_vec(), vec![0x03, 0x50], vec![0u8; 16], vec![0x09, 0x81], nest].concat())?;
    Ok(())
}
