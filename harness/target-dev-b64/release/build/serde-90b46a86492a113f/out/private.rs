#[doc(hidden)]
pub mod __private229 {
    #[doc(hidden)]
    pub use crate::private::*;
}
use serde_core::__private229 as serde_core_private;
