#[doc(hidden)]
pub mod __private229 {
    #[doc(hidden)]
    pub use crate::private::*;
}
